(* ModelKernels.v — code-shaped Gallina model of the L1 kernels of PySpike
   (pyspike/cython/python_backend.py, directionality_python_backend.py and the
   .pyx duplicates).  Index arithmetic over numpy arrays is replaced by
   zippers: a cursor into a train is a pair (past, fut) with [past] holding
   the spikes already consumed, most recent first.  [index < N-1] is
   [fut <> []], [s[index+1]] is [hd fut], "N > 1" is [2 <= |past|+|fut|].
   Loops are recursion on explicit fuel.  No proofs in this file. *)

From Coq Require Import List Bool ZArith.
Import ListNotations.
From PS Require Import Num.

Set Implicit Arguments.

Section Kernels.
  Context {F : Type} (o : NumOps F).

  Local Notation "0" := (n0 o).
  Local Notation "1" := (n1 o).
  Local Notation "2" := (n2 o).
  Local Notation "a + b" := (nadd o a b).
  Local Notation "a - b" := (nsub o a b).
  Local Notation "a * b" := (nmul o a b).
  Local Notation "a / b" := (ndiv o a b).
  Local Notation "a <? b" := (nltb o a b).
  Local Notation "a >? b" := (nltb o b a) (at level 70).
  Local Notation "a =? b" := (neqb o a b).
  Local Notation "a <=? b" := (nleb o a b).
  Local Notation max := (nmax o).
  Local Notation min := (nmin o).
  Local Notation abs := (nabs o).

  (* ---------------------------------------------------------------- *)
  (* ISI profile: isi_distance_python / isi_profile_cython             *)

  (* abs(nu1-nu2) / max([nu1, nu2, MRTS]) *)
  Definition isi_ratio (m nu1 nu2 : F) : F :=
    abs (nu1 - nu2) / max (max nu1 nu2) m.
  (* cython: fabs(nu1-nu2)/fmax(MRTS, fmax(nu1, nu2)) *)
  Definition isi_ratio_cy (m nu1 nu2 : F) : F :=
    abs (nu1 - nu2) / max m (max nu1 nu2).

  (* value of nu after the cursor advanced onto [hd past] *)
  Definition nu_after (te : F) (past fut : list F) : F :=
    match past, fut with
    | x :: _, y :: _ => y - x
    | x :: p :: _, [] => max (te - x) (x - p)
    | x :: [], [] => te - x
    | [], _ => 0
    end.

  (* start-edge initialisation of one train: (past, fut, nu) *)
  Definition isi_init (ts te : F) (s : list F) : list F * list F * F :=
    match s with
    | [] => ([], [], 0)
    | x0 :: r =>
        if x0 >? ts then
          ([], s, match r with x1 :: _ => max (x0 - ts) (x1 - x0) | [] => x0 - ts end)
        else
          ([x0], r, match r with x1 :: _ => x1 - x0 | [] => te - x0 end)
    end.

  (* the three-way merge loop; emits (event, nu1, nu2) *)
  Fixpoint isi_loop (fuel : nat) (te : F)
           (p1 f1 : list F) (nu1 : F) (p2 f2 : list F) (nu2 : F)
    : list (F * F * F) :=
    match fuel with
    | O => []
    | S k =>
        let adv1 a f1' :=
          let p1' := a :: p1 in
          let nu1' := nu_after te p1' f1' in
          (a, nu1', nu2) :: isi_loop k te p1' f1' nu1' p2 f2 nu2 in
        let adv2 b f2' :=
          let p2' := b :: p2 in
          let nu2' := nu_after te p2' f2' in
          (b, nu1, nu2') :: isi_loop k te p1 f1 nu1 p2' f2' nu2' in
        match f1, f2 with
        | [], [] => []
        | a :: f1', [] => adv1 a f1'
        | [], b :: f2' => adv2 b f2'
        | a :: f1', b :: f2' =>
            if a <? b then adv1 a f1'
            else if a >? b then adv2 b f2'
            else
              let p1' := a :: p1 in
              let p2' := b :: p2 in
              let nu1' := nu_after te p1' f1' in
              let nu2' := nu_after te p2' f2' in
              (a, nu1', nu2') :: isi_loop k te p1' f1' nu1' p2' f2' nu2'
        end
    end.

  (* cython variant: at the last spike  fmax(t_end - s[index], nu)  re-uses the
     running nu instead of re-reading s[N-1]-s[N-2] *)
  Definition nu_after_cy (te nu : F) (past fut : list F) : F :=
    match past, fut with
    | x :: _, y :: _ => y - x
    | x :: _ :: _, [] => max (te - x) nu
    | x :: [], [] => te - x
    | [], _ => 0
    end.

  Fixpoint isi_loop_cy (fuel : nat) (te : F)
           (p1 f1 : list F) (nu1 : F) (p2 f2 : list F) (nu2 : F)
    : list (F * F * F) :=
    match fuel with
    | O => []
    | S k =>
        let adv1 a f1' :=
          let p1' := a :: p1 in
          let nu1' := nu_after_cy te nu1 p1' f1' in
          (a, nu1', nu2) :: isi_loop_cy k te p1' f1' nu1' p2 f2 nu2 in
        let adv2 b f2' :=
          let p2' := b :: p2 in
          let nu2' := nu_after_cy te nu2 p2' f2' in
          (b, nu1, nu2') :: isi_loop_cy k te p1 f1 nu1 p2' f2' nu2' in
        match f1, f2 with
        | [], [] => []
        | a :: f1', [] => adv1 a f1'
        | [], b :: f2' => adv2 b f2'
        | a :: f1', b :: f2' =>
            if a <? b then adv1 a f1'
            else if a >? b then adv2 b f2'
            else
              let p1' := a :: p1 in
              let p2' := b :: p2 in
              let nu1' := nu_after_cy te nu1 p1' f1' in
              let nu2' := nu_after_cy te nu2 p2' f2' in
              (a, nu1', nu2') :: isi_loop_cy k te p1' f1' nu1' p2' f2' nu2'
        end
    end.

  Definition ev_t (e : F * F * F) : F := fst (fst e).

  (* raw scan result: start state and the emitted events *)
  Definition isi_scan (ts te : F) (s1 s2 : list F) : (F * F) * list (F * F * F) :=
    let '(p1, f1, nu1) := isi_init ts te s1 in
    let '(p2, f2, nu2) := isi_init ts te s2 in
    ((nu1, nu2), isi_loop (length s1 + length s2) te p1 f1 nu1 p2 f2 nu2).

  Definition isi_scan_cy (ts te : F) (s1 s2 : list F) : (F * F) * list (F * F * F) :=
    let '(p1, f1, nu1) := isi_init ts te s1 in
    let '(p2, f2, nu2) := isi_init ts te s2 in
    ((nu1, nu2), isi_loop_cy (length s1 + length s2) te p1 f1 nu1 p2 f2 nu2).

  (* trailing handling shared by the ISI and SPIKE profile kernels:
     if the last event equals t_end the last value is dropped, otherwise
     t_end is appended to the time axis *)
  Definition close_profile {A} (te : F) (xs : list F) (ys : list A) : list F * list A :=
    if last xs te =? te then (xs, removelast ys) else (xs ++ [te], ys).

  Definition isi_profile_gen (ratio : F -> F -> F -> F)
             (scan : F -> F -> list F -> list F -> (F * F) * list (F * F * F))
             (s1 s2 : list F) (ts te m : F) : list F * list F :=
    let '((nu1, nu2), evs) := scan ts te s1 s2 in
    let xs := ts :: map ev_t evs in
    let ys := ratio m nu1 nu2 :: map (fun e => ratio m (snd (fst e)) (snd e)) evs in
    close_profile te xs ys.

  (* isi_distance_python(s1, s2, t_start, t_end, MRTS); s1, s2 non-empty *)
  Definition isi_profile_py := isi_profile_gen isi_ratio isi_scan.
  Definition isi_profile_cy := isi_profile_gen isi_ratio_cy isi_scan_cy.

  (* cython_distances.isi_distance_cython: single pass accumulation *)
  Fixpoint isi_acc (m : F) (evs : list (F * F * F)) (last_t cur acc : F) : F * F * F :=
    match evs with
    | [] => (last_t, cur, acc)
    | (t, nu1, nu2) :: r =>
        isi_acc m r t (isi_ratio_cy m nu1 nu2) (acc + cur * (t - last_t))
    end.

  Definition isi_distance_cy (s1 s2 : list F) (ts te m : F) : F :=
    let '((nu1, nu2), evs) := isi_scan_cy ts te s1 s2 in
    let '(last_t, cur, acc) := isi_acc m evs ts (isi_ratio_cy m nu1 nu2) 0 in
    (* the trailing piece is only accumulated if it is not empty *)
    (if last_t <? te then acc + cur * (te - last_t) else acc) / (te - ts).

  (* ---------------------------------------------------------------- *)
  (* get_min_dist                                                      *)

  (* loop over the suffix; Some d = early return, None d = fell through *)
  Fixpoint gmd_loop (x : F) (l : list F) (d : F) : bool * F :=
    match l with
    | [] => (false, d)
    | y :: l' =>
        let dt := abs (x - y) in
        if dt >? d then (true, d) else gmd_loop x l' dt
    end.

  (* get_min_dist(spike_time, spike_train, start_index, t_start, t_end) with
     [l] the suffix spike_train[max(start_index,0):] *)
  Definition get_min_dist (x : F) (l : list F) (a0 a1 : F) : F :=
    let d := abs (x - a0) in
    let '(early, d') := gmd_loop x l d in
    if early then d'
    else let dt := abs (a1 - x) in if dt >? d' then d' else dt.

  (* suffix of a train starting at the cursor index (index -1 -> 0) *)
  Definition from_cursor (past fut : list F) : list F :=
    match past with x :: _ => x :: fut | [] => fut end.

  (* ---------------------------------------------------------------- *)
  (* dist_at_t                                                         *)

  Definition nhalfmul (a : F) : F := a / 2.   (* .5*a, exact in binary fp *)

  Definition dist_at_t (isi1 isi2 s1 s2 m : F) (ri : bool) : F :=
    let meanISI := nhalfmul (isi1 + isi2) in
    let limitedISI := max m meanISI in
    if ri then nhalfmul (s1 + s2) / limitedISI
    else nhalfmul (s1 * isi2 + s2 * isi1) / (meanISI * limitedISI).

  (* ---------------------------------------------------------------- *)
  (* SPIKE profile: spike_distance_python / spike_profile_cython       *)

  (* auxiliary spikes (t_aux[0], t_aux[1]) of a train *)
  Definition last2 (s : list F) : option (F * F) :=   (* (s[N-1], s[N-2]) *)
    match rev s with a :: b :: _ => Some (a, b) | _ => None end.

  Definition t_aux_py (ts te : F) (s : list F) : F * F :=
    match s, last2 s with
    | x0 :: x1 :: _, Some (a, b) =>
        (min ts (x0 - (x1 - x0)), max te (a + (a - b)))
    | _, _ => (ts, te)
    end.
  (* cython: 2*t[0]-t[1],  2*t[N-1]-t[N-2] *)
  Definition t_aux_cy (ts te : F) (s : list F) : F * F :=
    match s, last2 s with
    | x0 :: x1 :: _, Some (a, b) =>
        (min ts (2 * x0 - x1), max te (2 * a - b))
    | _, _ => (ts, te)
    end.

  (* per-train scan state *)
  Record sst : Type := mkSst {
    s_past : list F; s_fut : list F;
    s_tp : F; s_tf : F; s_dtp : F; s_dtf : F; s_isi : F; s_s : F }.

  (* edge ISI at the last spike [a] with earlier spikes [past] *)
  Definition end_isi (te a : F) (past : list F) : F :=
    match past with p :: _ => max (te - a) (a - p) | [] => te - a end.

  Definition spike_init (ts te : F) (s other : list F) (aux auxo : F * F) : sst :=
    match s with
    | [] => mkSst [] [] 0 0 0 0 0 0
    | x0 :: r =>
        let tp0 := if x0 =? ts then ts else fst aux in
        if x0 >? ts then
          let tf := x0 in
          let dtf := get_min_dist tf other (fst auxo) (snd auxo) in
          let isi := match r with x1 :: _ => max (tf - ts) (x1 - x0) | [] => tf - ts end in
          mkSst [] s tp0 tf dtf dtf isi dtf
        else
          let tf := match r with x1 :: _ => x1 | [] => te end in
          let dtp := get_min_dist tp0 other (fst auxo) (snd auxo) in
          (* a lone spike on t_start keeps its contribution constant (N == 1) *)
          let dtf := match r with
                     | _ :: _ => get_min_dist tf other (fst auxo) (snd auxo)
                     | [] => dtp
                     end in
          mkSst [x0] r tp0 tf dtp dtf (tf - x0) dtp
    end.

  (* advance train A (state a) past its next spike; B (state b) is the other
     train.  Returns (event time, y_end of the closing piece, y_start of the
     opening piece, new a, new b).  [swap] tells dist_at_t the argument order
     (train 1 first). *)
  Definition spike_adv (te m : F) (ri : bool) (auxA auxB : F * F)
             (a b : sst) (swap : bool) : F * F * F * sst * sst :=
    match s_fut a with
    | [] => (0, 0, 0, a, b)
    | x :: fA' =>
        let sA := s_dtf a * (s_tf a - s_tp a) / s_isi a in
        let dtpA := s_dtf a in
        let tpA := s_tf a in
        let pastA' := x :: s_past a in
        let tfA := match fA' with y :: _ => y | [] => snd auxA end in
        let sB := (s_dtp b * (s_tf b - tpA) + s_dtf b * (tpA - s_tp b)) / s_isi b in
        let yend := if swap then dist_at_t (s_isi b) (s_isi a) sB sA m ri
                    else dist_at_t (s_isi a) (s_isi b) sA sB m ri in
        let '(dtfA, isiA) :=
          match fA' with
          | _ :: _ => (get_min_dist tfA (from_cursor (s_past b) (s_fut b)) (fst auxB) (snd auxB),
                       tfA - tpA)
          | [] => (dtpA, end_isi te x (s_past a))
          end in
        let sA' := dtpA in
        let ystart := if swap then dist_at_t (s_isi b) isiA sB sA' m ri
                      else dist_at_t isiA (s_isi b) sA' sB m ri in
        (tpA, yend, ystart,
         mkSst pastA' fA' tpA tfA dtpA dtfA isiA sA',
         mkSst (s_past b) (s_fut b) (s_tp b) (s_tf b) (s_dtp b) (s_dtf b) (s_isi b) sB)
    end.

  (* simultaneous spike: both trains advance; [oa]/[ob] are the states of the
     two trains *before* the step, the nearest-spike search of each train
     starts from the other train's *new* cursor *)
  Definition spike_both_one (te : F) (auxA auxB : F * F) (a : sst)
             (pastB' futB' : list F) : sst :=
    match s_fut a with
    | [] => a
    | x :: fA' =>
        let tpA := s_tf a in
        match fA' with
        | y :: _ =>
            let tfA := y in
            let dtfA := get_min_dist tfA (from_cursor pastB' futB') (fst auxB) (snd auxB) in
            mkSst (x :: s_past a) fA' tpA tfA 0 dtfA (tfA - tpA) (s_s a)
        | [] =>
            mkSst (x :: s_past a) fA' tpA (snd auxA) 0 0 (end_isi te x (s_past a)) (s_s a)
        end
    end.

  Fixpoint spike_loop (fuel : nat) (te m : F) (ri : bool) (aux1 aux2 : F * F)
           (a b : sst) : list (F * F * F) :=   (* (event, y_end before, y_start after) *)
    match fuel with
    | O => []
    | S k =>
        let go1 :=
          let '(t, ye, ys, a', b') := spike_adv te m ri aux1 aux2 a b false in
          (t, ye, ys) :: spike_loop k te m ri aux1 aux2 a' b' in
        let go2 :=
          let '(t, ye, ys, b', a') := spike_adv te m ri aux2 aux1 b a true in
          (t, ye, ys) :: spike_loop k te m ri aux1 aux2 a' b' in
        match s_fut a, s_fut b with
        | [], [] => []
        | _ :: _, [] => go1
        | [], _ :: _ => go2
        | x :: fa', y :: fb' =>
            if s_tf a <? s_tf b then go1
            else if s_tf a >? s_tf b then go2
            else
              let a' := spike_both_one te aux1 aux2 a (y :: s_past b) fb' in
              let b' := spike_both_one te aux2 aux1 b (x :: s_past a) fa' in
              (s_tf a, 0, 0) :: spike_loop k te m ri aux1 aux2 a' b'
        end
    end.

  (* final state after the loop is needed for the closing value: re-run the
     loop returning the final states *)
  Fixpoint spike_final (fuel : nat) (te m : F) (ri : bool) (aux1 aux2 : F * F)
           (a b : sst) : sst * sst :=
    match fuel with
    | O => (a, b)
    | S k =>
        let go1 :=
          let '(_, _, _, a', b') := spike_adv te m ri aux1 aux2 a b false in
          spike_final k te m ri aux1 aux2 a' b' in
        let go2 :=
          let '(_, _, _, b', a') := spike_adv te m ri aux2 aux1 b a true in
          spike_final k te m ri aux1 aux2 a' b' in
        match s_fut a, s_fut b with
        | [], [] => (a, b)
        | _ :: _, [] => go1
        | [], _ :: _ => go2
        | x :: fa', y :: fb' =>
            if s_tf a <? s_tf b then go1
            else if s_tf a >? s_tf b then go2
            else
              let a' := spike_both_one te aux1 aux2 a (y :: s_past b) fb' in
              let b' := spike_both_one te aux2 aux1 b (x :: s_past a) fa' in
              spike_final k te m ri aux1 aux2 a' b'
        end
    end.

  Definition spike_profile_gen (taux : F -> F -> list F -> F * F)
             (t1 t2 : list F) (ts te m : F) (ri : bool)
    : list F * list F * list F :=
    let aux1 := taux ts te t1 in
    let aux2 := taux ts te t2 in
    let a0 := spike_init ts te t1 t2 aux1 aux2 in
    let b0 := spike_init ts te t2 t1 aux2 aux1 in
    let fuel := (length t1 + length t2)%nat in
    let evs := spike_loop fuel te m ri aux1 aux2 a0 b0 in
    let '(af, bf) := spike_final fuel te m ri aux1 aux2 a0 b0 in
    let y0 := dist_at_t (s_isi a0) (s_isi b0) (s_s a0) (s_s b0) m ri in
    let xs := ts :: map ev_t evs in
    let ystarts := y0 :: map (fun e => snd e) evs in
    let yends := map (fun e => snd (fst e)) evs in
    if last xs te =? te then (xs, removelast ystarts, yends)
    else
      let ylast := dist_at_t (s_isi af) (s_isi bf) (s_dtf af) (s_dtf bf) m ri in
      (xs ++ [te], ystarts, yends ++ [ylast]).

  Definition spike_profile_py := spike_profile_gen t_aux_py.
  Definition spike_profile_cy := spike_profile_gen t_aux_cy.

  (* cython_distances.spike_distance_cython: single pass trapezoid sum.  The
     closing piece is accumulated only if t_last < t_end. *)
  Fixpoint spike_acc (evs : list (F * F * F)) (t_last y_start acc : F) : F * F * F :=
    match evs with
    | [] => (t_last, y_start, acc)
    | (t, ye, ys) :: r =>
        spike_acc r t ys (acc + nhalfmul (y_start + ye) * (t - t_last))
    end.

  Definition spike_distance_cy (t1 t2 : list F) (ts te m : F) (ri : bool) : F :=
    let aux1 := t_aux_cy ts te t1 in
    let aux2 := t_aux_cy ts te t2 in
    let a0 := spike_init ts te t1 t2 aux1 aux2 in
    let b0 := spike_init ts te t2 t1 aux2 aux1 in
    let fuel := (length t1 + length t2)%nat in
    let evs := spike_loop fuel te m ri aux1 aux2 a0 b0 in
    let '(af, bf) := spike_final fuel te m ri aux1 aux2 a0 b0 in
    let y0 := dist_at_t (s_isi a0) (s_isi b0) (s_s a0) (s_s b0) m ri in
    let '(t_last, y_start, acc) := spike_acc evs ts y0 0 in
    let y_end := dist_at_t (s_isi af) (s_isi bf) (s_dtf af) (s_dtf bf) m ri in
    (if t_last <? te then acc + nhalfmul (y_start + y_end) * (te - t_last) else acc) / (te - ts).

  (* ---------------------------------------------------------------- *)
  (* get_tau: the coincidence window                                   *)

  (* a spike with its neighbours in its own train *)
  Record ctx : Type := mkCtx { c_prev : option F; c_cur : F; c_next : option F }.

  Definition ctx_of (past fut : list F) : option ctx :=
    match past with
    | x :: p => Some (mkCtx (hd_error p) x (hd_error fut))
    | [] => None
    end.

  Definition gapF (lim : F) (c : option ctx) : F :=
    match c with
    | Some (mkCtx _ x (Some y)) => y - x
    | _ => lim
    end.
  Definition gapP (lim : F) (c : option ctx) : F :=
    match c with
    | Some (mkCtx (Some p) x _) => x - p
    | _ => lim
    end.

  (* python: Interpolate(a, b, t) *)
  Definition interp (a b t : F) : F :=
    let mab := min a b in
    if t <? mab then mab else if t >? b then b else t.
  (* cython_get_tau.pyx: same function, different branch order *)
  Definition interp_cy (a b t : F) : F :=
    if (t <? a) && (a <? b) then a
    else if (t <? b) && (b <=? a) then b
    else if t >? b then b else t.

  Definition first_le (c1 c2 : option ctx) : bool :=
    match c1, c2 with
    | Some x, Some y => c_cur x <=? c_cur y
    | _, _ => true
    end.

  Definition get_tau_gen (ip : F -> F -> F -> F)
             (c1 c2 : option ctx) (lim mrts : F) : F :=
    let mF1 := gapF lim c1 / 2 in
    let mF2 := gapF lim c2 / 2 in
    let mP1 := gapP lim c1 / 2 in
    let mP2 := gapP lim c2 / 2 in
    let m := mrts / n4 o in
    min (if first_le c1 c2
         then min (ip mP1 mF1 m) (ip mF2 mP2 m)
         else min (ip mF1 mP1 m) (ip mP2 mF2 m))
        (lim / 2).

  Definition get_tau := get_tau_gen interp.
  Definition get_tau_cy := get_tau_gen interp_cy.

  (* true_max = t_end - t_start; if max_tau > 0: min(true_max, 2*max_tau) *)
  Definition true_max (ts te mt : F) : F :=
    let tm := te - ts in
    if mt >? 0 then min tm (2 * mt) else tm.

  (* ---------------------------------------------------------------- *)
  (* coincidence / order / directionality scans                        *)

  (* One generic merge scan.  [hit1]: train 1 advanced onto a spike that is
     coincident with the last spike of train 2; [hit2] symmetric. *)
  Inductive sev : Type :=
  | Adv1 (t : F) (hit : bool)     (* spike of train 1, coincident with previous spike of 2 *)
  | Adv2 (t : F) (hit : bool)
  | Both (t : F).

  Fixpoint coinc_events (tau : option ctx -> option ctx -> F)
           (fuel : nat) (p1 f1 p2 f2 : list F) : list sev :=
    match fuel with
    | O => []
    | S k =>
        let adv1 a f1' :=
          let p1' := a :: p1 in
          let t := tau (ctx_of p1' f1') (ctx_of p2 f2) in
          let hit := match p2 with y :: _ => (a - y) <? t | [] => false end in
          Adv1 a hit :: coinc_events tau k p1' f1' p2 f2 in
        let adv2 b f2' :=
          let p2' := b :: p2 in
          let t := tau (ctx_of p1 f1) (ctx_of p2' f2') in
          let hit := match p1 with x :: _ => (b - x) <? t | [] => false end in
          Adv2 b hit :: coinc_events tau k p1 f1 p2' f2' in
        match f1, f2 with
        | [], [] => []
        | a :: f1', [] => adv1 a f1'
        | [], b :: f2' => adv2 b f2'
        | a :: f1', b :: f2' =>
            if a <? b then adv1 a f1'
            else if a >? b then adv2 b f2'
            else Both a :: coinc_events tau k (a :: p1) f1' (b :: p2) f2'
        end
    end.

  (* discrete profile entries (time, value, multiplicity), built with the
     look-back write  c[n-1] = v  of the Python code: [acc] is reversed *)
  Definition set_head_val (v : F) (acc : list (F * F * F)) : list (F * F * F) :=
    match acc with
    | (t, _, mp) :: r => (t, v, mp) :: r
    | [] => []
    end.

  Fixpoint mark_events (v1 v2 vboth : F) (evs : list sev) (acc : list (F * F * F))
    : list (F * F * F) :=
    match evs with
    | [] => rev acc
    | Adv1 t hit :: r =>
        if hit then mark_events v1 v2 vboth r ((t, v1, 1) :: set_head_val v1 acc)
        else mark_events v1 v2 vboth r ((t, 0, 1) :: acc)
    | Adv2 t hit :: r =>
        if hit then mark_events v1 v2 vboth r ((t, v2, 1) :: set_head_val v2 acc)
        else mark_events v1 v2 vboth r ((t, 0, 1) :: acc)
    | Both t :: r => mark_events v1 v2 vboth r ((t, vboth, 2) :: acc)
    end.

  Definition e_t (e : F * F * F) : F := fst (fst e).
  Definition e_y (e : F * F * F) : F := snd (fst e).
  Definition e_mp (e : F * F * F) : F := snd e.

  (* edge fix-up: st[0]=t_start, st[-1]=t_end, edge values copy the neighbours;
     two empty trains give ([ts,te],[1,1],[1,1]) *)
  Definition frame_profile (ts te : F) (entries : list (F * F * F)) : list (F * F * F) :=
    match entries with
    | [] => [(ts, 1, 1); (te, 1, 1)]
    | e0 :: _ =>
        let el := last entries e0 in
        (ts, e_y e0, e_mp e0) :: entries ++ [(te, e_y el, e_mp el)]
    end.

  Definition coinc_scan (tau : option ctx -> option ctx -> F) (s1 s2 : list F) : list sev :=
    coinc_events tau (length s1 + length s2) [] s1 [] s2.

  Definition tau_fn (gt : option ctx -> option ctx -> F -> F -> F)
             (ts te mt mrts : F) : option ctx -> option ctx -> F :=
    fun c1 c2 => gt c1 c2 (true_max ts te mt) mrts.

  (* coincidence_python / coincidence_profile_cython *)
  Definition coincidence_profile_gen gt (s1 s2 : list F) (ts te mt mrts : F)
    : list (F * F * F) :=
    frame_profile ts te
      (mark_events 1 1 2 (coinc_scan (tau_fn gt ts te mt mrts) s1 s2) []).

  (* spike_train_order_profile_python / _cython: -1 when train 1 follows *)
  Definition order_profile_gen gt (s1 s2 : list F) (ts te mt mrts : F)
    : list (F * F * F) :=
    frame_profile ts te
      (mark_events (0 - 1) 1 0 (coinc_scan (tau_fn gt ts te mt mrts) s1 s2) []).

  (* coincidence_value_cython: (coinc, mp) in one pass *)
  Fixpoint coinc_value (evs : list sev) (c mp : F) : F * F :=
    match evs with
    | [] => (c, mp)
    | Adv1 _ hit :: r | Adv2 _ hit :: r =>
        coinc_value r (if hit then c + 2 else c) (mp + 1)
    | Both _ :: r => coinc_value r (c + 2) (mp + 2)
    end.
  Definition coincidence_value_gen gt (s1 s2 : list F) (ts te mt mrts : F) : F * F :=
    coinc_value (coinc_scan (tau_fn gt ts te mt mrts) s1 s2) 0 0.

  (* spike_train_order_cython: (c, mp) in one pass; two empty trains: (1, 1)?
     see ModelAPI: the .pyx starts from mp = 0, c = 0 *)
  Fixpoint order_value (evs : list sev) (c mp : F) : F * F :=
    match evs with
    | [] => (c, mp)
    | Adv1 _ hit :: r => order_value r (if hit then c - 2 else c) (mp + 1)
    | Adv2 _ hit :: r => order_value r (if hit then c + 2 else c) (mp + 1)
    | Both _ :: r => order_value r c (mp + 2)
    end.

  (* spike_directionality_profile_python: per-spike values of both trains;
     d1[i] = -1, d2[j] = +1 when train 1 follows.  Accumulators reversed. *)
  Definition set_head (v : F) (acc : list F) : list F :=
    match acc with _ :: r => v :: r | [] => [] end.

  Fixpoint dir_marks (evs : list sev) (a1 a2 : list F) : list F * list F :=
    match evs with
    | [] => (rev a1, rev a2)
    | Adv1 _ hit :: r =>
        if hit then dir_marks r ((0 - 1) :: a1) (set_head 1 a2)
        else dir_marks r (0 :: a1) a2
    | Adv2 _ hit :: r =>
        if hit then dir_marks r (set_head 1 a1) ((0 - 1) :: a2)
        else dir_marks r a1 (0 :: a2)
    | Both _ :: r => dir_marks r (0 :: a1) (0 :: a2)
    end.

  Definition directionality_profile_gen gt (s1 s2 : list F) (ts te mt mrts : F)
    : list F * list F :=
    dir_marks (coinc_scan (tau_fn gt ts te mt mrts) s1 s2) [] [].

  (* spike_directionality_cython: d = sum of d1 in one pass *)
  Fixpoint dir_value (evs : list sev) (d : F) : F :=
    match evs with
    | [] => d
    | Adv1 _ hit :: r => dir_value r (if hit then d - 1 else d)
    | Adv2 _ hit :: r => dir_value r (if hit then d + 1 else d)
    | Both _ :: r => dir_value r d
    end.

  (* ---------------------------------------------------------------- *)
  (* coincidence_single_python: per-spike indicator of train 1         *)

  (* while j < N2-1 and spikes2[j+1] < x: j += 1 *)
  Fixpoint skip_before (x : F) (p2 f2 : list F) : list F * list F :=
    match f2 with
    | y :: f2' => if y <? x then skip_before x (y :: p2) f2' else (p2, f2)
    | [] => (p2, f2)
    end.

  Fixpoint coinc_single_loop (tau : option ctx -> option ctx -> F)
           (p1 f1 p2 f2 : list F) : list F :=
    match f1 with
    | [] => []
    | x :: f1' =>
        let p1' := x :: p1 in
        let c1 := ctx_of p1' f1' in
        let '(q2, g2) := skip_before x p2 f2 in
        let hitA :=
          match q2 with
          | y :: _ => abs (x - y) <? tau c1 (ctx_of q2 g2)
          | [] => false
          end in
        let step :=
          match g2 with
          | z :: g2' =>
              match q2 with
              | y :: _ => y <? x
              | [] => true
              end
          | [] => false
          end in
        if step then
          match g2 with
          | z :: g2' =>
              let q2' := z :: q2 in
              let hitB := abs (z - x) <? tau c1 (ctx_of q2' g2') in
              (if hitA || hitB then 1 else 0) :: coinc_single_loop tau p1' f1' q2' g2'
          | [] => []
          end
        else (if hitA then 1 else 0) :: coinc_single_loop tau p1' f1' q2 g2
    end.

  Definition coincidence_single_gen gt (s1 s2 : list F) (ts te mt mrts : F) : list F :=
    coinc_single_loop (tau_fn gt ts te mt mrts) [] s1 [] s2.

End Kernels.
