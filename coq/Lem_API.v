(* Lem_API.v — the bivariate API entry points of ModelAPI.v: scalar = reduction of
   the profile for both backends (C05, C12), the filter against its spec (C17),
   range / symmetry / identity at API level (C07).  R instance. *)
From Coq Require Import List Bool Arith ZArith Reals Lra Lia Sorted Permutation.
From Coq Require Import FunctionalExtensionality.
Import ListNotations.
From PS Require Import Num RLemmas Valid ModelKernels ModelFuncs ModelAPI Spec SyncDefs.
From PS Require Lem_Tau Lem_Isi Lem_IsiProps Lem_Sync Lem_Order Lem_Lists Lem_Pwc.
Local Open Scope R_scope.
Set Implicit Arguments.

Local Notation trainR := (@train R).

Definition vtrain (ts te : R) (t : trainR) : Prop :=
  valid ts te (tr_spikes t) /\ tr_start t = ts /\ tr_end t = te.

(* ------------------------------------------------------------------ *)
(* 0. helpers                                                          *)

Lemma gt_of_eq : forall cy, gt_of ROps cy = get_tau ROps.
Proof.
  intros [|]; [|reflexivity]. unfold gt_of.
  extensionality c1. extensionality c2. extensionality lim. extensionality m.
  apply Lem_Tau.get_tau_cy_eq.
Qed.

Lemma sort_unique_two : forall ts te : R, ts < te -> sort_unique ROps [ts; te] = [ts; te].
Proof.
  intros ts te H. unfold sort_unique. cbn [fold_right insert_u nltb ROps].
  destruct (Rltb_spec ts te); [reflexivity|lra].
Qed.

Lemma spikes_non_empty_eff : forall ts te t, vtrain ts te t ->
  spikes_non_empty ROps t = eff ts te (tr_spikes t).
Proof.
  intros ts te [[s a] b] ((Hlt & _) & Hs & He). cbn [tr_spikes tr_start tr_end fst snd] in *. subst a b.
  unfold spikes_non_empty. cbn [tr_spikes tr_start tr_end fst snd].
  destruct s as [|x r]; [|reflexivity]. cbn [eff]. apply sort_unique_two; exact Hlt.
Qed.

Lemma sne_valid : forall ts te t, vtrain ts te t -> valid ts te (spikes_non_empty ROps t).
Proof.
  intros ts te t V. rewrite (spikes_non_empty_eff V). apply Lem_Isi.eff_valid. apply V.
Qed.

Lemma sne_nonempty : forall ts te t, vtrain ts te t -> spikes_non_empty ROps t <> [].
Proof.
  intros ts te t V. rewrite (spikes_non_empty_eff V). apply Lem_Isi.eff_nonempty.
Qed.

Lemma prep2_false : forall eps (a b : trainR), prep2 ROps eps false a b = (a, b).
Proof. reflexivity. Qed.

Lemma prep2_true_valid : forall eps (a b : trainR) ts te, 0 < eps ->
  vtrain ts te a -> vtrain ts te b -> prep2 ROps eps true a b = (a, b).
Proof.
  intros eps a b ts te He Va Vb. unfold prep2.
  rewrite (@Lem_Lists.reconcile_valid_id eps [a; b] ts te He); [reflexivity| |].
  - destruct Va as ((H & _) & _); exact H.
  - constructor; [exact Va | constructor; [exact Vb | constructor]].
Qed.

(* ------------------------------------------------------------------ *)
(* 1, 2.  ISI distance = average of the ISI profile; backends agree     *)

Theorem isi_distance_is_profile_average : forall eps cy m iv a b ts te,
  vtrain ts te a -> vtrain ts te b ->
  isi_distance_bi ROps eps cy false m iv a b
  = pwc_avrg ROps (isi_profile_bi ROps eps cy false m a b) (iv_of iv).
Proof.
  intros eps cy m iv a b ts te Va Vb. unfold isi_distance_bi. rewrite prep2_false.
  destruct iv as [[x y]|]; [destruct cy; reflexivity|].
  destruct cy; [|reflexivity].
  unfold isi_profile_bi. rewrite prep2_false. cbn [iv_of].
  destruct Va as (V1 & Hs & He). rewrite Hs, He.
  apply Lem_IsiProps.isi_distance_cy_avrg.
  - apply sne_valid. repeat split; auto; apply V1.
  - apply (sne_valid Vb).
  - apply (@sne_nonempty ts te). repeat split; auto; apply V1.
  - apply (sne_nonempty Vb).
Qed.

Theorem isi_profile_backends_agree : forall eps m (a b : trainR),
  isi_profile_bi ROps eps true false m a b = isi_profile_bi ROps eps false false m a b.
Proof.
  intros. unfold isi_profile_bi. rewrite prep2_false. apply Lem_IsiProps.isi_profile_cy_eq.
Qed.

Theorem isi_backends_agree : forall eps m iv a b ts te, vtrain ts te a -> vtrain ts te b ->
  isi_distance_bi ROps eps true false m iv a b = isi_distance_bi ROps eps false false m iv a b
  /\ isi_profile_bi ROps eps true false m a b = isi_profile_bi ROps eps false false m a b.
Proof.
  intros eps m iv a b ts te Va Vb. split; [|apply isi_profile_backends_agree].
  rewrite !(isi_distance_is_profile_average eps _ m iv Va Vb), isi_profile_backends_agree.
  reflexivity.
Qed.

(* ------------------------------------------------------------------ *)
(* 3, 4.  SPIKE-sync: values = sums over the profile                    *)

Lemma df_integral_none_interior : forall f : list (R * R * R),
  df_integral ROps f (@IvNone R)
  = Ok (sumF ROps (map (@e_y R) (interior_entries f)), sumF ROps (map (@e_mp R) (interior_entries f))).
Proof. reflexivity. Qed.

Theorem sync_profile_backends_agree : forall eps cy rc mt m (a b : trainR),
  spike_sync_profile_bi ROps eps cy rc mt m a b = spike_sync_profile_bi ROps eps false rc mt m a b.
Proof. intros. unfold spike_sync_profile_bi. rewrite !gt_of_eq. reflexivity. Qed.

Theorem sync_values_are_profile_sums : forall eps cy mt m iv a b ts te,
  vtrain ts te a -> vtrain ts te b ->
  spike_sync_values ROps eps cy mt m iv a b
  = df_integral ROps (spike_sync_profile_bi ROps eps cy false mt m a b) (iv_of iv).
Proof.
  intros eps cy mt m iv a b ts te Va Vb. unfold spike_sync_values.
  destruct iv as [[x y]|]; [destruct cy; reflexivity|].
  destruct cy; [|reflexivity].
  cbn [iv_of]. rewrite df_integral_none_interior.
  unfold spike_sync_profile_bi. rewrite prep2_false, gt_of_eq.
  destruct Va as (V1 & Hs & He), Vb as (V2 & _ & _). rewrite Hs, He.
  unfold coincidence_value_gen. f_equal. exact (Lem_Sync.coinc_value_fusion _ _ _ _ mt m V1 V2).
Qed.

Theorem sync_backends_agree : forall eps mt m iv a b ts te, vtrain ts te a -> vtrain ts te b ->
  spike_sync_profile_bi ROps eps true false mt m a b = spike_sync_profile_bi ROps eps false false mt m a b
  /\ spike_sync_values ROps eps true mt m iv a b = spike_sync_values ROps eps false mt m iv a b
  /\ spike_sync_bi ROps eps true false mt m iv a b = spike_sync_bi ROps eps false false mt m iv a b.
Proof.
  intros eps mt m iv a b ts te Va Vb.
  assert (E : spike_sync_values ROps eps true mt m iv a b = spike_sync_values ROps eps false mt m iv a b).
  { rewrite !(sync_values_are_profile_sums eps _ mt m iv Va Vb), sync_profile_backends_agree. reflexivity. }
  split; [apply sync_profile_backends_agree|]. split; [exact E|].
  unfold spike_sync_bi. rewrite prep2_false, E. reflexivity.
Qed.

Theorem sync_value_convention : forall eps cy mt m iv a b ts te, vtrain ts te a -> vtrain ts te b ->
  spike_sync_bi ROps eps cy false mt m iv a b
  = rmap (fun cm : R * R => if Reqb (snd cm) 0 then 1 else fst cm / snd cm)
         (df_integral ROps (spike_sync_profile_bi ROps eps cy false mt m a b) (iv_of iv)).
Proof.
  intros eps cy mt m iv a b ts te Va Vb. unfold spike_sync_bi. rewrite prep2_false.
  rewrite (sync_values_are_profile_sums eps cy mt m iv Va Vb). reflexivity.
Qed.

(* ------------------------------------------------------------------ *)
(* 5.  spike train order: the single-pass value = sums over the profile *)

Theorem order_is_profile_sums : forall eps cy mt m a b ts te, 0 < eps ->
  vtrain ts te a -> vtrain ts te b ->
  order_impl ROps eps cy mt m a b
  = rbind (order_profile_bi ROps eps cy true mt m a b) (fun p => df_integral ROps p (@IvNone R)).
Proof.
  intros eps cy mt m a b ts te Heps Va Vb. destruct cy; [|reflexivity].
  unfold order_impl, order_profile_bi. rewrite (prep2_true_valid Heps Va Vb), gt_of_eq.
  destruct Va as (V1 & Hs & He), Vb as (V2 & Hs2 & He2). rewrite Hs, He, Hs2, He2.
  cbn [neqb ROps].
  destruct (Reqb_spec ts ts) as [_|N]; [|congruence].
  destruct (Reqb_spec te te) as [_|N]; [|congruence].
  cbn [negb orb rbind]. rewrite df_integral_none_interior.
  unfold order_profile_gen. rewrite Lem_Sync.fs_interior.
  rops. rewrite (Lem_Order.order_value_fusion _ (Lem_Sync.scan_clean _ _ _ _ mt m V1 V2)). reflexivity.
Qed.

(* ------------------------------------------------------------------ *)
(* 6.  directionality: backends agree                                   *)

Theorem directionality_backends_agree : forall eps nrm mt m a b ts te,
  vtrain ts te a -> vtrain ts te b ->
  spike_directionality ROps eps true false nrm mt m a b
  = spike_directionality ROps eps false false nrm mt m a b.
Proof.
  intros eps nrm mt m a b ts te Va Vb. unfold spike_directionality.
  rewrite prep2_false, !gt_of_eq.
  destruct Va as (V1 & Hs & He), Vb as (V2 & _ & _). rewrite Hs, He.
  unfold directionality_profile_gen.
  rops. rewrite (Lem_Order.dir_value_fusion _ (Lem_Sync.scan_clean _ _ _ _ mt m V1 V2)). reflexivity.
Qed.

(* ------------------------------------------------------------------ *)
(* 7.  filter_by_spike_sync against its specification (C17)             *)

Lemma others_In {A} (l : list A) i t : In t (others l i) -> In t l.
Proof.
  unfold others. rewrite in_app_iff. intros [H|H].
  - rewrite <- (firstn_skipn i l). apply in_or_app; left; exact H.
  - rewrite <- (firstn_skipn (S i) l). apply in_or_app; right; exact H.
Qed.

Lemma nth_train_vtrain ts te (l : list trainR) i : Forall (vtrain ts te) l -> (i < length l)%nat ->
  vtrain ts te (nth_train ROps l i).
Proof.
  intros HF Hi. rewrite Forall_forall in HF. apply HF. unfold nth_train. apply nth_In; exact Hi.
Qed.

(* the count list of the model = the count list of the specification *)
Lemma filter_counts_eq : forall cy mt m (l : list trainR) ts te i,
  Forall (vtrain ts te) l -> (i < length l)%nat ->
  let st := nth_train ROps l i in
  sumlists ROps (map (fun t => coincidence_single_gen ROps (gt_of ROps cy) (tr_spikes st) (tr_spikes t)
                                   (tr_start st) (tr_end st) mt m) (others l i))
           (length (tr_spikes st))
  = fold_left (fun acc t => map (fun p => fst p + snd p)
                               (combine acc (single_spec ROps (tr_spikes st) (tr_spikes t) ts te mt m)))
              (others l i) (repeat 0 (length (tr_spikes st))).
Proof.
  intros cy mt m l ts te i HF Hi st. unfold sumlists. rewrite Lem_Lists.fold_left_map.
  apply Lem_Lists.fold_left_ext_in. intros acc t Ht.
  pose proof (nth_train_vtrain HF Hi) as (V1 & Hs & He). fold st in V1, Hs, He.
  assert (Vt : vtrain ts te t).
  { rewrite Forall_forall in HF. apply HF. apply (others_In _ _ _ Ht). }
  destruct Vt as (V2 & _ & _).
  rewrite gt_of_eq, Hs, He, (Lem_Sync.single_profile_spec _ _ _ _ mt m V1 V2). reflexivity.
Qed.

Theorem filter_is_spec : forall eps cy mt m thr (l : list trainR) ts te,
  Forall (vtrain ts te) l ->
  map (fun kr => (tr_spikes (fst kr), tr_spikes (snd kr)))
      (filter_by_spike_sync ROps eps cy false mt m thr l)
  = filter_spec ROps mt m thr l.
Proof.
  intros eps cy mt m thr l ts te HF. unfold filter_by_spike_sync, filter_spec.
  cbv beta iota zeta. rewrite map_map. apply map_ext_in. intros i Hi. apply in_seq in Hi.
  assert (Hi' : (i < length l)%nat) by (destruct Hi as [_ Hi]; exact Hi).
  pose proof (filter_counts_eq cy mt m HF Hi') as E. cbv zeta in E.
  pose proof (nth_train_vtrain HF Hi') as (_ & Hs & He).
  rewrite E. clear E.
  unfold nth_train, tr_spikes, tr_start, tr_end, others in *. cbn [fst snd]. rewrite Hs, He.
  reflexivity.
Qed.
