(* Lem_API.v — the bivariate API entry points of ModelAPI.v: scalar = reduction of
   the profile for both backends (C05, C12), the filter against its spec (C17),
   range / symmetry / identity at API level (C07).  R instance. *)
From Coq Require Import List Bool Arith ZArith Reals Lra Lia Sorted Permutation.
From Coq Require Import FunctionalExtensionality.
Import ListNotations.
From PS Require Import Num RLemmas Valid ModelKernels ModelFuncs ModelAPI Spec SyncDefs.
From PS Require Lem_Tau Lem_Isi Lem_IsiProps Lem_Sync Lem_Order Lem_Lists Lem_Multi.
Local Open Scope R_scope.
Set Implicit Arguments.

Local Notation trainR := (@train R).

Definition vtrain (ts te : R) (t : trainR) : Prop :=
  valid ts te (tr_spikes t) /\ tr_start t = ts /\ tr_end t = te.

(* ------------------------------------------------------------------ *)
(* 0. helpers                                                          *)

Lemma gt_of_eq : forall cy, gt_of ROps cy = get_tau ROps.
Proof.
  intros [|]; [|reflexivity]. unfold gt_of.
  extensionality c1. extensionality c2. extensionality lim. extensionality m.
  apply Lem_Tau.get_tau_cy_eq.
Qed.

Lemma sort_unique_two : forall ts te : R, ts < te -> sort_unique ROps [ts; te] = [ts; te].
Proof.
  intros ts te H. unfold sort_unique. cbn [fold_right insert_u nltb ROps].
  destruct (Rltb_spec ts te); [reflexivity|lra].
Qed.

Lemma spikes_non_empty_eff : forall ts te t, vtrain ts te t ->
  spikes_non_empty ROps t = eff ts te (tr_spikes t).
Proof.
  intros ts te [[s a] b] ((Hlt & _) & Hs & He). cbn [tr_spikes tr_start tr_end fst snd] in *. subst a b.
  unfold spikes_non_empty. cbn [tr_spikes tr_start tr_end fst snd].
  destruct s as [|x r]; [|reflexivity]. cbn [eff]. apply sort_unique_two; exact Hlt.
Qed.

Lemma sne_valid : forall ts te t, vtrain ts te t -> valid ts te (spikes_non_empty ROps t).
Proof.
  intros ts te t V. rewrite (spikes_non_empty_eff V). apply Lem_Isi.eff_valid. apply V.
Qed.

Lemma sne_nonempty : forall ts te t, vtrain ts te t -> spikes_non_empty ROps t <> [].
Proof.
  intros ts te t V. rewrite (spikes_non_empty_eff V). apply Lem_Isi.eff_nonempty.
Qed.

Lemma prep2_false : forall eps (a b : trainR), prep2 ROps eps false a b = (a, b).
Proof. reflexivity. Qed.

Lemma prep2_true_valid : forall eps (a b : trainR) ts te, 0 < eps ->
  vtrain ts te a -> vtrain ts te b -> prep2 ROps eps true a b = (a, b).
Proof.
  intros eps a b ts te He Va Vb. unfold prep2.
  rewrite (@Lem_Lists.reconcile_valid_id eps [a; b] ts te He); [reflexivity| |].
  - destruct Va as ((H & _) & _); exact H.
  - constructor; [exact Va | constructor; [exact Vb | constructor]].
Qed.

(* ------------------------------------------------------------------ *)
(* 1, 2.  ISI distance = average of the ISI profile; backends agree     *)

Theorem isi_distance_is_profile_average : forall eps cy m iv a b ts te,
  vtrain ts te a -> vtrain ts te b ->
  isi_distance_bi ROps eps cy false m iv a b
  = pwc_avrg ROps (isi_profile_bi ROps eps cy false m a b) (iv_of iv).
Proof.
  intros eps cy m iv a b ts te Va Vb. unfold isi_distance_bi. rewrite prep2_false.
  destruct iv as [[x y]|]; [destruct cy; reflexivity|].
  destruct cy; [|reflexivity].
  unfold isi_profile_bi. rewrite prep2_false. cbn [iv_of].
  destruct Va as (V1 & Hs & He). rewrite Hs, He.
  apply Lem_IsiProps.isi_distance_cy_avrg.
  - apply sne_valid. repeat split; auto; apply V1.
  - apply (sne_valid Vb).
  - apply (@sne_nonempty ts te). repeat split; auto; apply V1.
  - apply (sne_nonempty Vb).
Qed.

Theorem isi_profile_backends_agree : forall eps m (a b : trainR),
  isi_profile_bi ROps eps true false m a b = isi_profile_bi ROps eps false false m a b.
Proof.
  intros. unfold isi_profile_bi. rewrite prep2_false. apply Lem_IsiProps.isi_profile_cy_eq.
Qed.

Theorem isi_backends_agree : forall eps m iv a b ts te, vtrain ts te a -> vtrain ts te b ->
  isi_distance_bi ROps eps true false m iv a b = isi_distance_bi ROps eps false false m iv a b
  /\ isi_profile_bi ROps eps true false m a b = isi_profile_bi ROps eps false false m a b.
Proof.
  intros eps m iv a b ts te Va Vb. split; [|apply isi_profile_backends_agree].
  rewrite !(isi_distance_is_profile_average eps _ m iv Va Vb), isi_profile_backends_agree.
  reflexivity.
Qed.

(* ------------------------------------------------------------------ *)
(* 3, 4.  SPIKE-sync: values = sums over the profile                    *)

Lemma df_integral_none_interior : forall f : list (R * R * R),
  df_integral ROps f (@IvNone R)
  = Ok (sumF ROps (map (@e_y R) (interior_entries f)), sumF ROps (map (@e_mp R) (interior_entries f))).
Proof. reflexivity. Qed.

Theorem sync_profile_backends_agree : forall eps cy rc mt m (a b : trainR),
  spike_sync_profile_bi ROps eps cy rc mt m a b = spike_sync_profile_bi ROps eps false rc mt m a b.
Proof. intros. unfold spike_sync_profile_bi. rewrite !gt_of_eq. reflexivity. Qed.

Theorem sync_values_are_profile_sums : forall eps cy mt m iv a b ts te,
  vtrain ts te a -> vtrain ts te b ->
  spike_sync_values ROps eps cy mt m iv a b
  = df_integral ROps (spike_sync_profile_bi ROps eps cy false mt m a b) (iv_of iv).
Proof.
  intros eps cy mt m iv a b ts te Va Vb. unfold spike_sync_values.
  destruct iv as [[x y]|]; [destruct cy; reflexivity|].
  destruct cy; [|reflexivity].
  cbn [iv_of]. rewrite df_integral_none_interior.
  unfold spike_sync_profile_bi. rewrite prep2_false, gt_of_eq.
  destruct Va as (V1 & Hs & He), Vb as (V2 & _ & _). rewrite Hs, He.
  unfold coincidence_value_gen. f_equal. exact (Lem_Sync.coinc_value_fusion _ _ _ _ mt m V1 V2).
Qed.

Theorem sync_backends_agree : forall eps mt m iv a b ts te, vtrain ts te a -> vtrain ts te b ->
  spike_sync_profile_bi ROps eps true false mt m a b = spike_sync_profile_bi ROps eps false false mt m a b
  /\ spike_sync_values ROps eps true mt m iv a b = spike_sync_values ROps eps false mt m iv a b
  /\ spike_sync_bi ROps eps true false mt m iv a b = spike_sync_bi ROps eps false false mt m iv a b.
Proof.
  intros eps mt m iv a b ts te Va Vb.
  assert (E : spike_sync_values ROps eps true mt m iv a b = spike_sync_values ROps eps false mt m iv a b).
  { rewrite !(sync_values_are_profile_sums eps _ mt m iv Va Vb), sync_profile_backends_agree. reflexivity. }
  split; [apply sync_profile_backends_agree|]. split; [exact E|].
  unfold spike_sync_bi. rewrite prep2_false, E. reflexivity.
Qed.

Theorem sync_value_convention : forall eps cy mt m iv a b ts te, vtrain ts te a -> vtrain ts te b ->
  spike_sync_bi ROps eps cy false mt m iv a b
  = rmap (fun cm : R * R => if Reqb (snd cm) 0 then 1 else fst cm / snd cm)
         (df_integral ROps (spike_sync_profile_bi ROps eps cy false mt m a b) (iv_of iv)).
Proof.
  intros eps cy mt m iv a b ts te Va Vb. unfold spike_sync_bi. rewrite prep2_false.
  rewrite (sync_values_are_profile_sums eps cy mt m iv Va Vb). reflexivity.
Qed.

(* ------------------------------------------------------------------ *)
(* 5.  spike train order: the single-pass value = sums over the profile *)
(* [0 < eps] is needed: the fall-back branch of order_impl reconciles (rc = true) and with
   eps = 0 the reconcile window is open, so spikes on the edges are dropped.  Q instance:
   a = ([0;5],0,10), b = ([1/2;7],0,10), eps = 0, mt = m = 0:
   order_impl true = Ok (4,4) but the sums over order_profile_bi true true = Ok (2,3). *)

Theorem order_is_profile_sums : forall eps cy mt m a b ts te, 0 < eps ->
  vtrain ts te a -> vtrain ts te b ->
  order_impl ROps eps cy mt m a b
  = rbind (order_profile_bi ROps eps cy true mt m a b) (fun p => df_integral ROps p (@IvNone R)).
Proof.
  intros eps cy mt m a b ts te Heps Va Vb. destruct cy; [|reflexivity].
  unfold order_impl, order_profile_bi. rewrite (prep2_true_valid Heps Va Vb), gt_of_eq.
  destruct Va as (V1 & Hs & He), Vb as (V2 & Hs2 & He2). rewrite Hs, He, Hs2, He2.
  cbn [neqb ROps].
  destruct (Reqb_spec ts ts) as [_|N]; [|congruence].
  destruct (Reqb_spec te te) as [_|N]; [|congruence].
  cbn [negb orb rbind]. rewrite df_integral_none_interior.
  unfold order_profile_gen. rewrite Lem_Sync.fs_interior.
  rops. rewrite (Lem_Order.order_value_fusion _ (Lem_Sync.scan_clean _ _ _ _ mt m V1 V2)). reflexivity.
Qed.

(* ------------------------------------------------------------------ *)
(* 6.  directionality: backends agree                                   *)

Theorem directionality_backends_agree : forall eps nrm mt m a b ts te,
  vtrain ts te a -> vtrain ts te b ->
  spike_directionality ROps eps true false nrm mt m a b
  = spike_directionality ROps eps false false nrm mt m a b.
Proof.
  intros eps nrm mt m a b ts te Va Vb. unfold spike_directionality.
  rewrite prep2_false, !gt_of_eq.
  destruct Va as (V1 & Hs & He), Vb as (V2 & _ & _). rewrite Hs, He.
  unfold directionality_profile_gen.
  rops. rewrite (Lem_Order.dir_value_fusion _ (Lem_Sync.scan_clean _ _ _ _ mt m V1 V2)). reflexivity.
Qed.

(* ------------------------------------------------------------------ *)
(* 7.  filter_by_spike_sync against its specification (C17)             *)

Lemma others_In {A} (l : list A) i t : In t (others l i) -> In t l.
Proof.
  unfold others. rewrite in_app_iff. intros [H|H].
  - rewrite <- (firstn_skipn i l). apply in_or_app; left; exact H.
  - rewrite <- (firstn_skipn (S i) l). apply in_or_app; right; exact H.
Qed.

Lemma nth_train_vtrain ts te (l : list trainR) i : Forall (vtrain ts te) l -> (i < length l)%nat ->
  vtrain ts te (nth_train ROps l i).
Proof.
  intros HF Hi. rewrite Forall_forall in HF. apply HF. unfold nth_train. apply nth_In; exact Hi.
Qed.

(* the count list of the model = the count list of the specification *)
Lemma filter_counts_eq : forall cy mt m (l : list trainR) ts te i,
  Forall (vtrain ts te) l -> (i < length l)%nat ->
  let st := nth_train ROps l i in
  sumlists ROps (map (fun t => coincidence_single_gen ROps (gt_of ROps cy) (tr_spikes st) (tr_spikes t)
                                   (tr_start st) (tr_end st) mt m) (others l i))
           (length (tr_spikes st))
  = fold_left (fun acc t => map (fun p => fst p + snd p)
                               (combine acc (single_spec ROps (tr_spikes st) (tr_spikes t) ts te mt m)))
              (others l i) (repeat 0 (length (tr_spikes st))).
Proof.
  intros cy mt m l ts te i HF Hi st. unfold sumlists. rewrite Lem_Lists.fold_left_map.
  apply Lem_Lists.fold_left_ext_in. intros acc t Ht.
  pose proof (nth_train_vtrain HF Hi) as (V1 & Hs & He). fold st in V1, Hs, He.
  assert (Vt : vtrain ts te t).
  { rewrite Forall_forall in HF. apply HF. apply (others_In _ _ _ Ht). }
  destruct Vt as (V2 & _ & _).
  rewrite gt_of_eq, Hs, He, (Lem_Sync.single_profile_spec _ _ _ _ mt m V1 V2). reflexivity.
Qed.

Theorem filter_is_spec : forall eps cy mt m thr (l : list trainR) ts te,
  Forall (vtrain ts te) l ->
  map (fun kr => (tr_spikes (fst kr), tr_spikes (snd kr)))
      (filter_by_spike_sync ROps eps cy false mt m thr l)
  = filter_spec ROps mt m thr l.
Proof.
  intros eps cy mt m thr l ts te HF. unfold filter_by_spike_sync, filter_spec.
  cbv beta iota zeta. rewrite map_map. apply map_ext_in. intros i Hi. apply in_seq in Hi.
  assert (Hi' : (i < length l)%nat) by (destruct Hi as [_ Hi]; exact Hi).
  pose proof (filter_counts_eq cy mt m HF Hi') as E. cbv zeta in E.
  pose proof (nth_train_vtrain HF Hi') as (_ & Hs & He).
  rewrite E. clear E.
  unfold nth_train, tr_spikes, tr_start, tr_end, others in *. cbn [fst snd]. unfold train in *. rewrite Hs, He.
  reflexivity.
Qed.

(* ------------------------------------------------------------------ *)
(* 9.  ISI distance: symmetry, range, identity (C07)                    *)

Theorem isi_profile_symmetric : forall eps cy m a b ts te, vtrain ts te a -> vtrain ts te b ->
  isi_profile_bi ROps eps cy false m a b = isi_profile_bi ROps eps cy false m b a.
Proof.
  intros eps cy m a b ts te (_ & Hs & He) (_ & Hs' & He'). unfold isi_profile_bi.
  rewrite !prep2_false, Hs, He, Hs', He'.
  destruct cy; rewrite ?Lem_IsiProps.isi_profile_cy_eq; apply Lem_IsiProps.isi_profile_sym.
Qed.

Theorem isi_distance_symmetric : forall eps cy m iv a b ts te, vtrain ts te a -> vtrain ts te b ->
  isi_distance_bi ROps eps cy false m iv a b = isi_distance_bi ROps eps cy false m iv b a.
Proof.
  intros eps cy m iv a b ts te Va Vb.
  rewrite (isi_distance_is_profile_average eps cy m iv Va Vb),
          (isi_distance_is_profile_average eps cy m iv Vb Va),
          (isi_profile_symmetric eps cy m Va Vb). reflexivity.
Qed.

(* integral of a piecewise constant function with values in [lo, hi] *)
Lemma pwc_int_all_bounds : forall xs ys lo hi, ssorted xs -> length xs = S (length ys) ->
  Forall (fun y => lo <= y <= hi) ys ->
  lo * (lastF ROps xs - nthF ROps xs 0) <= pwc_int_all ROps xs ys <= hi * (lastF ROps xs - nthF ROps xs 0).
Proof.
  induction xs as [|x0 xs IH]; intros ys lo hi Hs Hlen HF; [discriminate|].
  destruct xs as [|x1 xs'].
  - destruct ys; [|discriminate]. unfold lastF, nthF. cbn [pwc_int_all last nth]. rops. lra.
  - destruct ys as [|y ys']; [discriminate|].
    apply ssorted_cons_inv in Hs as [Hs Hlt]. inversion Hlt as [|? ? H01 _]; subst.
    inversion HF as [|? ? Hy HF']; subst.
    specialize (IH ys' lo hi Hs ltac:(cbn [length] in *; lia) HF').
    change (pwc_int_all ROps (x0 :: x1 :: xs') (y :: ys'))
      with ((x1 - x0) * y + pwc_int_all ROps (x1 :: xs') ys').
    change (lastF ROps (x0 :: x1 :: xs')) with (lastF ROps (x1 :: xs')).
    change (nthF ROps (x0 :: x1 :: xs') 0) with x0.
    change (nthF ROps (x1 :: xs') 0) with x1 in IH.
    assert (A : lo * (x1 - x0) <= (x1 - x0) * y <= hi * (x1 - x0)) by (split; nra).
    lra.
Qed.

Lemma nthF0_hd (xs : list R) : nthF ROps xs 0 = hd 0 xs.
Proof. destruct xs; reflexivity. Qed.

Lemma isi_distance_none_value : forall eps cy m a b ts te, vtrain ts te a -> vtrain ts te b ->
  let p := isi_profile_py ROps (spikes_non_empty ROps a) (spikes_non_empty ROps b) ts te m in
  isi_distance_bi ROps eps cy false m None a b = Ok (pwc_int_all ROps (fst p) (snd p) / (te - ts)).
Proof.
  intros eps cy m a b ts te Va Vb p.
  rewrite (isi_distance_is_profile_average eps cy m None Va Vb).
  assert (E : isi_profile_bi ROps eps cy false m a b = p).
  { destruct cy; [rewrite isi_profile_backends_agree|];
      unfold isi_profile_bi; rewrite prep2_false;
      destruct Va as (_ & Hs & He); rewrite Hs, He; reflexivity. }
  rewrite E.
  destruct (Lem_IsiProps.isi_profile_wf _ _ _ _ m (sne_valid Va) (sne_valid Vb) (sne_nonempty Va) (sne_nonempty Vb))
    as (_ & H0 & Hl & _). fold p in H0, Hl.
  unfold pwc_avrg, avrg_gen, iv_of. rewrite nthF0_hd, H0. unfold lastF. rops. rewrite Hl.
  destruct p as [xs ys]. reflexivity.
Qed.

Lemma isi_ratio_range_any : forall m a b, 0 <= a -> 0 <= b -> 0 <= isi_ratio ROps m a b <= 1.
Proof.
  intros m a b Ha Hb. destruct (Rle_lt_dec 0 m) as [Hm|Hm].
  - apply Lem_IsiProps.isi_ratio_range; assumption.
  - rewrite Lem_IsiProps.isi_ratio_noop; [apply Lem_IsiProps.isi_ratio_range; lra | assumption | assumption |].
    apply Rle_trans with a; [lra|apply Rle_trans with (Rmax a b); [apply Rmax_l|apply Rle_refl]].
Qed.

(* values of the ISI profile lie in [0,1] whatever the threshold m *)
Lemma isi_profile_range_any : forall s1 s2 ts te m, valid ts te s1 -> valid ts te s2 ->
  Forall (fun y => 0 <= y <= 1) (snd (isi_profile_py ROps s1 s2 ts te m)).
Proof.
  intros s1 s2 ts te m V1 V2. rewrite Lem_IsiProps.isi_profile_py_unfold. unfold Lem_IsiProps.isi_prof.
  destruct (Lem_IsiProps.isi_init_ok _ _ _ V1) as (N1 & S1 & B1 & _).
  destruct (Lem_IsiProps.isi_init_ok _ _ _ V2) as (N2 & S2 & B2 & _).
  apply Lem_IsiProps.snd_close_profile_Forall. constructor; [apply isi_ratio_range_any; auto|].
  apply Forall_map.
  eapply Forall_impl; [|apply Lem_IsiProps.isi_nu_nonneg; eauto].
  intros e [H1 H2]. apply isi_ratio_range_any; auto.
Qed.

Theorem isi_distance_range : forall eps cy m a b ts te d,
  vtrain ts te a -> vtrain ts te b ->
  isi_distance_bi ROps eps cy false m None a b = Ok d -> 0 <= d <= 1.
Proof.
  intros eps cy m a b ts te d Va Vb E.
  rewrite (isi_distance_none_value eps cy m Va Vb) in E. cbv zeta in E. injection E as <-.
  set (p := isi_profile_py ROps (spikes_non_empty ROps a) (spikes_non_empty ROps b) ts te m).
  destruct (Lem_IsiProps.isi_profile_wf _ _ _ _ m (sne_valid Va) (sne_valid Vb) (sne_nonempty Va) (sne_nonempty Vb))
    as (Hlen & H0 & Hl & Hs). fold p in Hlen, H0, Hl, Hs.
  pose proof (isi_profile_range_any m (sne_valid Va) (sne_valid Vb)) as HR. fold p in HR.
  pose proof (pwc_int_all_bounds Hs Hlen HR) as B.
  rewrite nthF0_hd, H0 in B. unfold lastF in B. rops. rewrite Hl in B.
  assert (Hlt : ts < te) by (destruct Va as ((H & _) & _); exact H).
  split.
  - apply Rmult_le_reg_r with (te - ts); [lra|]. unfold Rdiv. rewrite Rmult_assoc, Rinv_l by lra. lra.
  - apply Rmult_le_reg_r with (te - ts); [lra|]. unfold Rdiv. rewrite Rmult_assoc, Rinv_l by lra. lra.
Qed.

Theorem isi_distance_self : forall eps cy m a ts te, vtrain ts te a ->
  isi_distance_bi ROps eps cy false m None a a = Ok 0.
Proof.
  intros eps cy m a ts te Va.
  rewrite (isi_distance_none_value eps cy m Va Va). cbv zeta. f_equal.
  set (p := isi_profile_py ROps (spikes_non_empty ROps a) (spikes_non_empty ROps a) ts te m).
  destruct (Lem_IsiProps.isi_profile_wf _ _ _ _ m (sne_valid Va) (sne_valid Va) (sne_nonempty Va) (sne_nonempty Va))
    as (Hlen & _ & _ & Hs). fold p in Hlen, Hs.
  pose proof (Lem_IsiProps.isi_profile_self (spikes_non_empty ROps a) ts te m) as HR. fold p in HR.
  assert (HR' : Forall (fun y => 0 <= y <= 0) (snd p)).
  { eapply Forall_impl; [|exact HR]. cbv beta. intros y ->. lra. }
  pose proof (pwc_int_all_bounds Hs Hlen HR') as B.
  assert (Z : pwc_int_all ROps (fst p) (snd p) = 0) by lra.
  rewrite Z. unfold Rdiv. apply Rmult_0_l.
Qed.

(* ------------------------------------------------------------------ *)
(* 10.  SPIKE-sync: symmetry, range, identity (C07)                     *)

Definition ratio1 (cm : R * R) : R := if Reqb (snd cm) 0 then 1 else fst cm / snd cm.

Theorem sync_profile_symmetric : forall eps cy mt m a b ts te, vtrain ts te a -> vtrain ts te b ->
  spike_sync_profile_bi ROps eps cy false mt m a b = spike_sync_profile_bi ROps eps cy false mt m b a.
Proof.
  intros eps cy mt m a b ts te ((_ & S1 & _) & Hs & He) ((_ & S2 & _) & Hs' & He').
  unfold spike_sync_profile_bi. rewrite !prep2_false, gt_of_eq, Hs, He, Hs', He'.
  symmetry. apply Lem_Order.sync_profile_sym; assumption.
Qed.

Theorem sync_symmetric : forall eps cy mt m iv a b ts te, vtrain ts te a -> vtrain ts te b ->
  spike_sync_bi ROps eps cy false mt m iv a b = spike_sync_bi ROps eps cy false mt m iv b a.
Proof.
  intros eps cy mt m iv a b ts te Va Vb.
  rewrite (sync_value_convention eps cy mt m iv Va Vb), (sync_value_convention eps cy mt m iv Vb Va),
          (sync_profile_symmetric eps cy mt m Va Vb). reflexivity.
Qed.

Lemma Forall_firstn {A} (P : A -> Prop) n : forall l, Forall P l -> Forall P (firstn n l).
Proof.
  induction n as [|n IH]; intros l H; [constructor|].
  destruct l as [|x l]; [constructor|]. inversion H; subst. cbn [firstn]. constructor; auto.
Qed.
Lemma Forall_skipn {A} (P : A -> Prop) n : forall l, Forall P l -> Forall P (skipn n l).
Proof.
  induction n as [|n IH]; intros l H; [exact H|].
  destruct l as [|x l]; [constructor|]. inversion H; subst. cbn [skipn]. auto.
Qed.
Lemma Forall_tl {A} (P : A -> Prop) l : Forall P l -> Forall P (tl l).
Proof. intros H. destruct l; [constructor|]. inversion H; assumption. Qed.

Lemma frame_profile_Forall (P : R * R * R -> Prop) ts te E :
  (forall t t' y mp, P (t, y, mp) -> P (t', y, mp)) -> P (ts, 1, 1) ->
  Forall P E -> Forall P (frame_profile ROps ts te E).
Proof.
  intros Ht P1 HF. unfold frame_profile. destruct E as [|e0 r].
  - constructor; [exact P1|]. constructor; [|constructor]. apply (Ht ts te); exact P1.
  - set (el := last (e0 :: r) e0).
    assert (Pel : P el) by (apply Lem_IsiProps.Forall_last_P; [exact HF | inversion HF; assumption]).
    constructor.
    + inversion HF; subst. destruct e0 as [[t y] mp]. apply (Ht t ts); assumption.
    + apply Forall_app. split; [exact HF|]. constructor; [|constructor].
      destruct el as [[t y] mp]. apply (Ht t te); assumption.
Qed.

Lemma sums_range (l : list (R * R * R)) : Forall (fun e => 0 <= e_y e <= e_mp e) l ->
  0 <= sumF ROps (map (@e_y R) l) <= sumF ROps (map (@e_mp R) l).
Proof.
  induction 1 as [|e l He _ IH]; cbn [map]; [unfold sumF; cbn; lra|].
  rewrite !Lem_Order.sumF_cons. cbv beta in He. lra.
Qed.

Lemma df_integral_range (f : list (R * R * R)) iv cm :
  Forall (fun e => 0 <= e_y e <= e_mp e) f ->
  df_integral ROps f (iv_of iv) = Ok cm -> 0 <= fst cm <= snd cm.
Proof.
  intros HF E. destruct iv as [[x y]|]; cbn [iv_of df_integral df_integral1] in E.
  - destruct (negb _) in E; [discriminate|]. injection E as <-.
    apply sums_range. unfold slice. apply Forall_firstn, Forall_skipn, HF.
  - injection E as <-. apply sums_range. apply Lem_IsiProps.Forall_removelast, Forall_tl, HF.
Qed.

Lemma ratio1_range cm : 0 <= fst cm <= snd cm -> 0 <= ratio1 cm <= 1.
Proof.
  intros H. unfold ratio1. destruct (Reqb_spec (snd cm) 0) as [E|N]; [lra|].
  assert (Hp : 0 < snd cm) by lra.
  split.
  - apply Rmult_le_reg_r with (snd cm); [lra|]. unfold Rdiv. rewrite Rmult_assoc, Rinv_l by lra. lra.
  - apply Rmult_le_reg_r with (snd cm); [lra|]. unfold Rdiv. rewrite Rmult_assoc, Rinv_l by lra. lra.
Qed.

Theorem sync_range : forall eps cy mt m iv a b ts te d, vtrain ts te a -> vtrain ts te b ->
  spike_sync_bi ROps eps cy false mt m iv a b = Ok d -> 0 <= d <= 1.
Proof.
  intros eps cy mt m iv a b ts te d Va Vb E.
  rewrite (sync_value_convention eps cy mt m iv Va Vb) in E.
  destruct (df_integral _ _ _) as [cm|] eqn:EI in E; [|discriminate].
  cbn [rmap] in E. injection E as <-. apply (ratio1_range cm).
  apply (@df_integral_range _ iv cm) in EI; [exact EI|].
  unfold spike_sync_profile_bi. rewrite prep2_false, gt_of_eq.
  destruct Va as (V1 & Hs & He), Vb as (V2 & _ & _). rewrite Hs, He.
  unfold coincidence_profile_gen. rewrite R_n2. rops.
  apply frame_profile_Forall.
  - intros t t' y mp H; exact H.
  - unfold e_y, e_mp; cbn [fst snd]; lra.
  - apply Lem_Order.mark_range. apply (Lem_Sync.scan_clean _ _ _ _ mt m V1 V2).
Qed.

(* a train against itself: every event is a shared time *)
Lemma coinc_events_self tau : forall (s : list R) k p1 p2, (length s <= k)%nat ->
  coinc_events ROps tau k p1 s p2 s = map (@Both R) s.
Proof.
  induction s as [|x s IH]; intros k p1 p2 Hk.
  - destruct k; reflexivity.
  - destruct k as [|k]; [cbn [length] in Hk; lia|].
    cbn [coinc_events map nltb ROps].
    destruct (Rltb_spec x x) as [H|_]; [lra|].
    f_equal. apply IH. cbn [length] in Hk. lia.
Qed.

Lemma mark_both (v1 v2 vb : R) : forall (s : list R) acc,
  mark_events ROps v1 v2 vb (map (@Both R) s) acc = rev acc ++ map (fun t => (t, vb, 2)) s.
Proof.
  induction s as [|x s IH]; intros acc; cbn [map mark_events]; [rewrite app_nil_r; reflexivity|].
  rewrite IH. cbn [rev]. rewrite <- app_assoc. reflexivity.
Qed.

Lemma sums_both (s : list R) :
  sumF ROps (map (@e_y R) (map (fun t : R => (t, 2, 2)) s))
  = sumF ROps (map (@e_mp R) (map (fun t : R => (t, 2, 2)) s))
  /\ 0 <= sumF ROps (map (@e_mp R) (map (fun t : R => (t, 2, 2)) s)).
Proof.
  induction s as [|x s [IH1 IH2]]; cbn [map]; [unfold sumF; cbn; lra|].
  rewrite !Lem_Order.sumF_cons.
  change (@e_y R (x, 2, 2)) with 2. change (@e_mp R (x, 2, 2)) with 2. lra.
Qed.

Theorem sync_self : forall eps cy mt m a ts te, vtrain ts te a ->
  spike_sync_bi ROps eps cy false mt m None a a = Ok 1.
Proof.
  intros eps cy mt m a ts te Va.
  rewrite (sync_value_convention eps cy mt m None Va Va).
  cbn [iv_of]. rewrite df_integral_none_interior. cbn [rmap]. f_equal.
  unfold spike_sync_profile_bi. rewrite prep2_false.
  unfold coincidence_profile_gen. rewrite Lem_Sync.fs_interior.
  unfold coinc_scan. rewrite coinc_events_self by lia. rewrite mark_both. cbn [rev app].
  rewrite R_n2. destruct (sums_both (tr_spikes a)) as [E1 E2].
  cbn [fst snd]. rewrite E1.
  destruct (Reqb_spec (sumF ROps (map (@e_mp R) (map (fun t : R => (t, 2, 2)) (tr_spikes a)))) 0) as [_|N];
    [reflexivity|].
  unfold Rdiv. apply Rinv_r. exact N.
Qed.

(* ------------------------------------------------------------------ *)
(* 11.  spike train order: range of the normalised value               *)

Lemma sums_abs_range (l : list (R * R * R)) : Forall (fun e => Rabs (e_y e) <= e_mp e) l ->
  - sumF ROps (map (@e_mp R) l) <= sumF ROps (map (@e_y R) l) <= sumF ROps (map (@e_mp R) l).
Proof.
  induction 1 as [|e l He _ IH]; cbn [map]; [unfold sumF; cbn; lra|].
  rewrite !Lem_Order.sumF_cons. cbv beta in He. unfold Rabs in He. destruct (Rcase_abs (e_y e)); lra.
Qed.

Theorem order_range : forall eps cy mt m a b ts te d, 0 < eps ->
  vtrain ts te a -> vtrain ts te b ->
  spike_train_order_bi ROps eps cy false true mt m a b = Ok d -> -1 <= d <= 1.
Proof.
  intros eps cy mt m a b ts te d Heps Va Vb E.
  unfold spike_train_order_bi in E. rewrite prep2_false in E.
  rewrite (order_is_profile_sums cy mt m Heps Va Vb) in E.
  unfold order_profile_bi in E. rewrite (prep2_true_valid Heps Va Vb), gt_of_eq in E.
  destruct Va as (V1 & Hs & He), Vb as (V2 & Hs2 & He2). rewrite Hs, He, Hs2, He2 in E.
  cbn [neqb ROps] in E.
  destruct (Reqb_spec ts ts) as [_|N]; [|congruence].
  destruct (Reqb_spec te te) as [_|N]; [|congruence].
  cbn [negb orb rbind] in E. rewrite df_integral_none_interior in E.
  unfold order_profile_gen in E. rewrite Lem_Sync.fs_interior in E. rops.
  pose proof (proj2 (Lem_Order.mark_range _ (Lem_Sync.scan_clean _ _ _ _ mt m V1 V2))) as HR.
  apply sums_abs_range in HR.
  cbn [rmap fst snd] in E. injection E as <-.
  set (c := sumF ROps (map (@e_y R) _)) in *. set (mp := sumF ROps (map (@e_mp R) _)) in *.
  destruct (Reqb_spec mp 0) as [_|N]; [lra|].
  assert (Hp : 0 < mp) by lra.
  split.
  - apply Rmult_le_reg_r with mp; [lra|]. unfold Rdiv. rewrite Rmult_assoc, Rinv_l by lra. lra.
  - apply Rmult_le_reg_r with mp; [lra|]. unfold Rdiv. rewrite Rmult_assoc, Rinv_l by lra. lra.
Qed.

(* ------------------------------------------------------------------ *)
(* 8.  which spikes the filter keeps                                    *)

Lemma nth_add_combine : forall (a c : list R) k, (k < length a)%nat -> (k < length c)%nat ->
  nth k (map (fun p : R * R => fst p + snd p) (combine a c)) 0 = nth k a 0 + nth k c 0.
Proof.
  induction a as [|x a IH]; intros c k Ha Hc; [cbn [length] in Ha; lia|].
  destruct c as [|v c]; [cbn [length] in Hc; lia|].
  destruct k as [|k]; [reflexivity|].
  cbn [combine map nth]. apply IH; cbn [length] in *; lia.
Qed.

Lemma nth_fold_add : forall (cs : list (list R)) (acc : list R) k n,
  length acc = n -> (forall c, In c cs -> length c = n) -> (k < n)%nat ->
  nth k (fold_left (fun acc c => map (fun p : R * R => fst p + snd p) (combine acc c)) cs acc) 0
  = nth k acc 0 + sumF ROps (map (fun c => nth k c 0) cs).
Proof.
  induction cs as [|c cs IH]; intros acc k n Ha Hc Hk.
  - cbn [fold_left map]. unfold sumF. cbn. lra.
  - cbn [fold_left map]. rewrite Lem_Order.sumF_cons.
    assert (Lc : length c = n) by (apply Hc; left; reflexivity).
    rewrite (IH _ k n).
    + rewrite nth_add_combine by lia. lra.
    + rewrite map_length, combine_length, Ha, Lc. lia.
    + intros c' H. apply Hc. right; exact H.
    + exact Hk.
Qed.

Lemma contexts_from_length : forall (s : list R) prev, length (contexts_from prev s) = length s.
Proof. induction s as [|x s IH]; intros prev; cbn [contexts_from length]; [|rewrite IH]; reflexivity. Qed.

Lemma single_spec_length s1 s2 ts te mt m : length (single_spec ROps s1 s2 ts te mt m) = length s1.
Proof. unfold single_spec. rewrite map_length. apply contexts_from_length. Qed.

Lemma In_tagged_l (g : R * R -> bool) (s c : list R) y :
  In y (map fst (filter g (combine s c))) -> In y s.
Proof.
  rewrite in_map_iff. intros ([a v] & <- & H). apply filter_In in H as [H _].
  apply in_combine_l in H. exact H.
Qed.

Lemma In_tagged_nth (g : R * R -> bool) : forall (s c : list R) k,
  NoDup s -> length c = length s -> (k < length s)%nat ->
  (In (nth k s 0) (map fst (filter g (combine s c))) <-> g (nth k s 0, nth k c 0) = true).
Proof.
  induction s as [|x s IH]; intros c k ND Hl Hk; [cbn [length] in Hk; lia|].
  destruct c as [|v c]; [discriminate|].
  inversion ND as [|? ? Hx ND']; subst.
  cbn [combine filter].
  destruct k as [|k]; cbn [nth].
  - destruct (g (x, v)) eqn:G.
    + split; [reflexivity|]. intros _. left; reflexivity.
    + split; [|discriminate]. intros H. apply In_tagged_l in H. contradiction.
  - assert (Hk' : (k < length s)%nat) by (cbn [length] in Hk; lia).
    assert (Hne : nth k s 0 <> x) by (intros E; apply Hx; rewrite <- E; apply nth_In; exact Hk').
    rewrite <- (IH c k ND' ltac:(cbn [length] in Hl; lia) Hk').
    destruct (g (x, v)); [|reflexivity].
    cbn [map fst In]. split; [intros [E|H]; [congruence|exact H] | intros H; right; exact H].
Qed.

Theorem filter_keep_iff : forall eps cy mt m thr (l : list trainR) ts te i k d,
  Forall (vtrain ts te) l -> (i < length l)%nat ->
  let st := nth_train ROps l i in
  (k < length (tr_spikes st))%nat ->
  let x := nth k (tr_spikes st) 0 in
  let cnt := sumF ROps (map (fun t : trainR =>
                 nth k (single_spec ROps (tr_spikes st) (tr_spikes t) ts te mt m) 0) (others l i)) in
  let kr := nth i (filter_by_spike_sync ROps eps cy false mt m thr l) d in
  (In x (tr_spikes (fst kr)) <-> thr * INR (length l - 1) < cnt) /\
  (In x (tr_spikes (snd kr)) <-> ~ thr * INR (length l - 1) < cnt).
Proof.
  intros eps cy mt m thr l ts te i k d HF Hi st Hk x cnt kr.
  pose proof (nth_train_vtrain HF Hi) as ((_ & S1 & _) & _ & _). fold st in S1.
  pose proof (Lem_Lists.ssorted_NoDup _ S1) as ND.
  unfold filter_by_spike_sync in kr. cbv beta iota zeta in kr.
  unfold kr. rewrite Lem_Multi.nth_map_seq by exact Hi. fold st.
  cbn [fst snd tr_spikes].
  pose proof (filter_counts_eq cy mt m HF Hi) as E. cbv zeta in E. fold st in E.
  unfold tr_spikes in E |- *. rewrite E. clear E.
  match goal with |- context [combine _ ?c] => set (C := c) end.
  assert (LC : length C = length (fst (fst st))).
  { unfold C. rewrite <- Lem_Lists.fold_left_map
      with (f := fun acc c => map (fun p : R * R => fst p + snd p) (combine acc c))
           (g := fun t : trainR => single_spec ROps (fst (fst st)) (fst (fst t)) ts te mt m).
    change (length (sumlists ROps (map (fun t : trainR =>
              single_spec ROps (fst (fst st)) (fst (fst t)) ts te mt m) (others l i))
              (length (fst (fst st)))) = length (fst (fst st))).
    apply Lem_Lists.sumlists_length. intros c Hc. apply in_map_iff in Hc as (t & <- & _).
    apply single_spec_length. }
  assert (NC : nth k C 0 = cnt).
  { unfold C. rewrite <- Lem_Lists.fold_left_map
      with (f := fun acc c => map (fun p : R * R => fst p + snd p) (combine acc c))
           (g := fun t : trainR => single_spec ROps (fst (fst st)) (fst (fst t)) ts te mt m).
    rewrite (@nth_fold_add _ _ k (length (fst (fst st)))).
    - rewrite nth_repeat, map_map. unfold cnt, tr_spikes. lra.
    - apply repeat_length.
    - intros c Hc. apply in_map_iff in Hc as (t & <- & _). apply single_spec_length.
    - exact Hk. }
  unfold x, tr_spikes in *. rewrite !(In_tagged_nth _ _ ND LC Hk). cbn [snd]. rewrite NC, Lem_Lists.nofnat_INR.
  cbn [nmul nltb ROps]. unfold nleb. cbn [nltb ROps].
  destruct (Rltb_spec (thr * INR (length l - 1)) cnt) as [H|H]; cbn [negb].
  - split; split; intros; try reflexivity; try assumption; try discriminate; tauto.
  - split; split; intros; try reflexivity; try assumption; try discriminate; tauto.
Qed.

(* ------------------------------------------------------------------ *)
Print Assumptions isi_distance_is_profile_average.
Print Assumptions sync_values_are_profile_sums.
Print Assumptions order_is_profile_sums.
Print Assumptions filter_is_spec.
