(* Bridge.v — kernel-checked bridge between the executed instance (QOps) and
   the instance the theorems are about (ROps), by parametricity.

   Every model / specification function  f  is a plain Gallina term that is
   polymorphic over [{F} (o : NumOps F)].  Paramcoq generates its relational
   interpretation  f_R ; instantiated with the relation  QR q r := Q2R q = r
   and the proof  QR_ops : NumOps_R Q R QR QOps ROps  it yields
        map-Q2R (f QOps args) = f ROps (map-Q2R args).                       *)

From Coq Require Import List Bool Arith ZArith QArith Qreals Reals Lra Lia.
Import ListNotations.
From Param Require Import Param.
From PS Require Import Num ModelKernels ModelFuncs ModelAPI Spec.

(* ------------------------------------------------------------------ *)
(* 1. The relation and the related operations                          *)

Definition QR (q : Q) (r : R) : Type := Q2R q = r.

Lemma Q2R_red (q : Q) : Q2R (Qred q) = Q2R q.
Proof. apply Qeq_eqR, Qred_correct. Qed.

Lemma Q2R_div_total (a b : Q) : Q2R (a / b) = (Q2R a / Q2R b)%R.
Proof.
  destruct (Qeq_dec b 0) as [Hb | Hb].
  - assert (Hb0 : Q2R b = 0%R) by (rewrite (Qeq_eqR _ _ Hb); apply RMicromega.Q2R_0).
    assert (Hq : (a / b == 0)%Q).
    { unfold Qdiv. rewrite Hb. unfold Qinv; simpl. ring. }
    rewrite (Qeq_eqR _ _ Hq), Hb0, RMicromega.Q2R_0.
    unfold Rdiv. rewrite Rinv_0. ring.
  - apply Q2R_div. exact Hb.
Qed.

Lemma Qltb_Rltb (a b : Q) : Qltb a b = Rltb (Q2R a) (Q2R b).
Proof.
  unfold Qltb, Rltb.
  destruct (Rlt_dec (Q2R a) (Q2R b)) as [H | H].
  - apply Rlt_Qlt in H. rewrite (proj1 (Qlt_alt a b) H). reflexivity.
  - destruct (Qcompare a b) eqn:E; try reflexivity.
    exfalso. apply H, Qlt_Rlt, Qlt_alt, E.
Qed.

Lemma Qeqb_Reqb (a b : Q) : Qeqb a b = Reqb (Q2R a) (Q2R b).
Proof.
  unfold Qeqb, Reqb.
  destruct (Req_EM_T (Q2R a) (Q2R b)) as [H | H].
  - apply eqR_Qeq in H. rewrite (proj1 (Qeq_alt a b) H). reflexivity.
  - destruct (Qcompare a b) eqn:E; try reflexivity.
    exfalso. apply H, Qeq_eqR, Qeq_alt, E.
Qed.

Lemma Q2R_inject_Z (z : Z) : Q2R (inject_Z z) = IZR z.
Proof. unfold Q2R, inject_Z; simpl. field. Qed.

Parametricity Recursive NumOps.
Parametricity Recursive nat.
Parametricity Recursive list.
Parametricity Recursive option.
Parametricity Recursive prod.

Lemma bool_R_refl (b : bool) : bool_R b b.
Proof. destruct b; constructor. Qed.
Lemma bool_R_eq (b1 b2 : bool) : bool_R b1 b2 -> b1 = b2.
Proof. intros []; reflexivity. Qed.
Lemma bool_R_of_eq (b1 b2 : bool) : b1 = b2 -> bool_R b1 b2.
Proof. intros ->; apply bool_R_refl. Qed.

Lemma positive_R_refl (p : positive) : positive_R p p.
Proof. induction p; constructor; assumption. Qed.
Lemma positive_R_eq (p q : positive) : positive_R p q -> p = q.
Proof. induction 1; congruence. Qed.
Lemma Z_R_refl (z : Z) : Z_R z z.
Proof. destruct z; constructor; apply positive_R_refl. Qed.
Lemma Z_R_eq (z1 z2 : Z) : Z_R z1 z2 -> z1 = z2.
Proof. intros [ | ? ? H | ? ? H]; try apply positive_R_eq in H; congruence. Qed.

Lemma QR_ops : NumOps_R Q R QR QOps ROps.
Proof.
  unfold QR, QOps, ROps. constructor.
  - apply RMicromega.Q2R_0.
  - apply RMicromega.Q2R_1.
  - intros a a' <- b b' <-. rewrite Q2R_red. apply Q2R_plus.
  - intros a a' <- b b' <-. rewrite Q2R_red. apply Q2R_minus.
  - intros a a' <- b b' <-. rewrite Q2R_red. apply Q2R_mult.
  - intros a a' <- b b' <-. rewrite Q2R_red. apply Q2R_div_total.
  - intros a a' <- b b' <-. apply bool_R_of_eq, Qltb_Rltb.
  - intros a a' <- b b' <-. apply bool_R_of_eq, Qeqb_Reqb.
  - intros z z' Hz. apply Z_R_eq in Hz. subst z'. apply Q2R_inject_Z.
Qed.

(* ------------------------------------------------------------------ *)
(* 2. Generic converters: a relation produced by Paramcoq at a data type
      is the graph of the corresponding "map Q2R" function.             *)

Class RelFun {A B : Type} (AR : A -> B -> Type) (f : A -> B) : Type := {
  r2f : forall a b, AR a b -> f a = b;
  f2r : forall a, AR a (f a)
}.

Definition pmap {A B C D} (f : A -> B) (g : C -> D) (p : A * C) : B * D :=
  (f (fst p), g (snd p)).

Parametricity Recursive res.
Parametricity Recursive ivspec.
Parametricity Recursive ctx.

Definition ivmap {A B} (f : A -> B) (iv : @ivspec A) : @ivspec B :=
  match iv with
  | IvNone => @IvNone B
  | IvOne a b => IvOne (f a) (f b)
  | IvMany l => IvMany (map (pmap f f) l)
  end.

Definition ctxmap {A B} (f : A -> B) (c : @ctx A) : @ctx B :=
  mkCtx (option_map f (c_prev c)) (f (c_cur c)) (option_map f (c_next c)).

Global Instance RF_QR : RelFun QR Q2R.
Proof. split; unfold QR; auto. Qed.

Lemma nat_R_refl (n : nat) : nat_R n n.
Proof. induction n; constructor; assumption. Qed.
Lemma nat_R_eq (n m : nat) : nat_R n m -> n = m.
Proof. induction 1; congruence. Qed.

Global Instance RF_bool : RelFun bool_R (fun b => b).
Proof. split; [apply bool_R_eq | apply bool_R_refl]. Qed.
Global Instance RF_nat : RelFun nat_R (fun n => n).
Proof. split; [apply nat_R_eq | apply nat_R_refl]. Qed.
Global Instance RF_Z : RelFun Z_R (fun n => n).
Proof. split; [apply Z_R_eq | apply Z_R_refl]. Qed.

Lemma err_R_refl (e : err) : err_R e e.
Proof. destruct e; constructor. Qed.
Lemma err_R_eq (e1 e2 : err) : err_R e1 e2 -> e1 = e2.
Proof. intros []; reflexivity. Qed.

Section Converters.
  Context {A B : Type} (AR : A -> B -> Type) (f : A -> B) {HA : RelFun AR f}.

  Lemma list_R_map (l1 : list A) (l2 : list B) : list_R A B AR l1 l2 -> map f l1 = l2.
  Proof. induction 1 as [ | a b Hab l1 l2 _ IH]; simpl; [reflexivity | ]. now rewrite (r2f _ _ Hab), IH. Qed.
  Lemma list_R_of_map (l : list A) : list_R A B AR l (map f l).
  Proof. induction l; simpl; constructor; [apply f2r | assumption]. Qed.
  Lemma list_R_of_map_eq (l1 : list A) (l2 : list B) : map f l1 = l2 -> list_R A B AR l1 l2.
  Proof. intros <-; apply list_R_of_map. Qed.

  Global Instance RF_list : RelFun (list_R A B AR) (map f).
  Proof. split; [apply list_R_map | apply list_R_of_map]. Qed.

  Lemma option_R_map (x : option A) (y : option B) : option_R A B AR x y -> option_map f x = y.
  Proof. intros [a b Hab | ]; simpl; [now rewrite (r2f _ _ Hab) | reflexivity]. Qed.
  Lemma option_R_of_map (x : option A) : option_R A B AR x (option_map f x).
  Proof. destruct x; simpl; constructor; apply f2r. Qed.

  Global Instance RF_option : RelFun (option_R A B AR) (option_map f).
  Proof. split; [apply option_R_map | apply option_R_of_map]. Qed.

  (* related results are both [Ok] of related values or the same [Err] *)
  Lemma res_R_inv (x : res A) (y : res B) :
    res_R A B AR x y ->
    match x, y with
    | Ok a, Ok b => AR a b
    | Err e, Err e' => e = e'
    | _, _ => False
    end.
  Proof. intros [a b Hab | e e' He]; [exact Hab | apply err_R_eq, He]. Qed.

  Lemma res_R_map (x : res A) (y : res B) : res_R A B AR x y -> rmap f x = y.
  Proof.
    intros [a b Hab | e e' He]; simpl; [now rewrite (r2f _ _ Hab) | now rewrite (err_R_eq _ _ He)].
  Qed.
  Lemma res_R_of_map (x : res A) : res_R A B AR x (rmap f x).
  Proof. destruct x; simpl; constructor; [apply f2r | apply err_R_refl]. Qed.

  Global Instance RF_res : RelFun (res_R A B AR) (rmap f).
  Proof. split; [apply res_R_map | apply res_R_of_map]. Qed.

  Lemma rmap_match (x : res A) (y : res B) :
    rmap f x = y <->
    match x, y with
    | Ok a, Ok b => f a = b
    | Err e, Err e' => e = e'
    | _, _ => False
    end.
  Proof. destruct x, y; simpl; split; intros H; try congruence; try contradiction; discriminate. Qed.

  Lemma ctx_R_map (x : @ctx A) (y : @ctx B) : ctx_R A B AR x y -> ctxmap f x = y.
  Proof.
    intros [p p' Hp c c' Hc n n' Hn]. unfold ctxmap; simpl.
    now rewrite (option_R_map _ _ Hp), (r2f _ _ Hc), (option_R_map _ _ Hn).
  Qed.
  Lemma ctx_R_of_map (x : @ctx A) : ctx_R A B AR x (ctxmap f x).
  Proof. destruct x; unfold ctxmap; simpl; constructor; try apply option_R_of_map; apply f2r. Qed.

  Global Instance RF_ctx : RelFun (ctx_R A B AR) (ctxmap f).
  Proof. split; [apply ctx_R_map | apply ctx_R_of_map]. Qed.
End Converters.

Section ConvertersProd.
  Context {A B C D : Type} (AR : A -> B -> Type) (f : A -> B) {HA : RelFun AR f}
          (CR : C -> D -> Type) (g : C -> D) {HC : RelFun CR g}.

  Lemma prod_R_map (p : A * C) (q : B * D) : prod_R A B AR C D CR p q -> pmap f g p = q.
  Proof. intros [a b Hab c d Hcd]. unfold pmap; simpl. now rewrite (r2f _ _ Hab), (r2f _ _ Hcd). Qed.
  Lemma prod_R_of_map (p : A * C) : prod_R A B AR C D CR p (pmap f g p).
  Proof. destruct p; unfold pmap; simpl; constructor; apply f2r. Qed.

  Global Instance RF_prod : RelFun (prod_R A B AR C D CR) (pmap f g).
  Proof. split; [apply prod_R_map | apply prod_R_of_map]. Qed.
End ConvertersProd.

Section ConvertersIv.
  Context {A B : Type} (AR : A -> B -> Type) (f : A -> B) {HA : RelFun AR f}.

  Lemma ivspec_R_map (x : @ivspec A) (y : @ivspec B) : ivspec_R A B AR x y -> ivmap f x = y.
  Proof.
    intros [ | a a' Ha b b' Hb | l l' Hl]; simpl.
    - reflexivity.
    - now rewrite (r2f (f:=f) _ _ Ha), (r2f (f:=f) _ _ Hb).
    - f_equal. exact (r2f (f:=map (pmap f f)) _ _ Hl).
  Qed.
  Lemma ivspec_R_of_map (x : @ivspec A) : ivspec_R A B AR x (ivmap f x).
  Proof. destruct x; simpl; constructor; apply f2r. Qed.

  Global Instance RF_ivspec : RelFun (ivspec_R A B AR) (ivmap f).
  Proof. split; [apply ivspec_R_map | apply ivspec_R_of_map]. Qed.
End ConvertersIv.

(* explicit statements of the converters at QR (requested interface) *)
Lemma list_R_QR_iff (l1 : list Q) (l2 : list R) :
  (list_R Q R QR l1 l2 -> map Q2R l1 = l2) * (map Q2R l1 = l2 -> list_R Q R QR l1 l2).
Proof. split; [apply list_R_map | apply list_R_of_map_eq]; exact _. Qed.
