(* Bridge.v — kernel-checked bridge between the executed instance (QOps) and
   the instance the theorems are about (ROps), by parametricity.

   Every model / specification function  f  is a plain Gallina term that is
   polymorphic over [{F} (o : NumOps F)].  Paramcoq generates its relational
   interpretation  f_R ; instantiated with the relation  QR q r := Q2R q = r
   and the proof  QR_ops : NumOps_R Q R QR QOps ROps  it yields
        map-Q2R (f QOps args) = f ROps (map-Q2R args).                       *)

(* Notes on Paramcoq (coq-paramcoq for 8.16, Debian package):
   - [Parametricity Recursive f.] once per top-level function is enough and
     safe to repeat: constants already translated (registered as
     "translation") are re-used, nothing clashes.
   - functions defined in a Section with a section variable [eps] simply take [eps]
     after [o]; [let fix] (hist_counts), records (sst, ctx), local
     inductives (sev, ivspec) and all List/Nat library functions translate.
   - higher-order arguments (gt : option ctx -> option ctx -> F -> F -> F)
     are avoided by translating wrappers with the argument fixed.
   - fixpoints whose body re-uses the structural argument (skip_before)
     produce an unfolding obligation; the obligation proof is NOT opened
     interactively in this build ("Parametricity Done" never applies), so
     it has to be discharged by the tactic registered with
     [Parametricity Tactic] (see below). *)

From Coq Require Import List Bool Arith ZArith QArith Qreals Reals Lra Lia.
Import ListNotations.
From Param Require Import Param.
From PS Require Import Num ModelKernels ModelFuncs ModelAPI Spec.

(* ------------------------------------------------------------------ *)
(* 1. The relation and the related operations                          *)

Definition QR (q : Q) (r : R) : Type := Q2R q = r.

Lemma Q2R_red (q : Q) : Q2R (Qred q) = Q2R q.
Proof. apply Qeq_eqR, Qred_correct. Qed.

Lemma Q2R_div_total (a b : Q) : Q2R (a / b) = (Q2R a / Q2R b)%R.
Proof.
  destruct (Qeq_dec b 0) as [Hb | Hb].
  - assert (Hb0 : Q2R b = 0%R) by (rewrite (Qeq_eqR _ _ Hb); apply RMicromega.Q2R_0).
    assert (Hq : (a / b == 0)%Q).
    { unfold Qdiv. rewrite Hb. unfold Qinv; simpl. ring. }
    rewrite (Qeq_eqR _ _ Hq), Hb0, RMicromega.Q2R_0.
    unfold Rdiv. rewrite Rinv_0. ring.
  - apply Q2R_div. exact Hb.
Qed.

Lemma Qltb_Rltb (a b : Q) : Qltb a b = Rltb (Q2R a) (Q2R b).
Proof.
  unfold Qltb, Rltb.
  destruct (Rlt_dec (Q2R a) (Q2R b)) as [H | H].
  - apply Rlt_Qlt in H. rewrite (proj1 (Qlt_alt a b) H). reflexivity.
  - destruct (Qcompare a b) eqn:E; try reflexivity.
    exfalso. apply H, Qlt_Rlt, Qlt_alt, E.
Qed.

Lemma Qeqb_Reqb (a b : Q) : Qeqb a b = Reqb (Q2R a) (Q2R b).
Proof.
  unfold Qeqb, Reqb.
  destruct (Req_EM_T (Q2R a) (Q2R b)) as [H | H].
  - apply eqR_Qeq in H. rewrite (proj1 (Qeq_alt a b) H). reflexivity.
  - destruct (Qcompare a b) eqn:E; try reflexivity.
    exfalso. apply H, Qeq_eqR, Qeq_alt, E.
Qed.

Lemma Q2R_inject_Z (z : Z) : Q2R (inject_Z z) = IZR z.
Proof. unfold Q2R, inject_Z; simpl. field. Qed.

Parametricity Recursive NumOps.
Parametricity Recursive nat.
Parametricity Recursive list.
Parametricity Recursive option.
Parametricity Recursive prod.

Lemma bool_R_refl (b : bool) : bool_R b b.
Proof. destruct b; constructor. Qed.
Lemma bool_R_eq (b1 b2 : bool) : bool_R b1 b2 -> b1 = b2.
Proof. intros []; reflexivity. Qed.
Lemma bool_R_of_eq (b1 b2 : bool) : b1 = b2 -> bool_R b1 b2.
Proof. intros ->; apply bool_R_refl. Qed.

Lemma positive_R_refl (p : positive) : positive_R p p.
Proof. induction p; constructor; assumption. Qed.
Lemma positive_R_eq (p q : positive) : positive_R p q -> p = q.
Proof. induction 1; congruence. Qed.
Lemma Z_R_refl (z : Z) : Z_R z z.
Proof. destruct z; constructor; apply positive_R_refl. Qed.
Lemma Z_R_eq (z1 z2 : Z) : Z_R z1 z2 -> z1 = z2.
Proof. intros [ | ? ? H | ? ? H]; try apply positive_R_eq in H; congruence. Qed.

Lemma QR_ops : NumOps_R Q R QR QOps ROps.
Proof.
  unfold QR, QOps, ROps. constructor.
  - apply RMicromega.Q2R_0.
  - apply RMicromega.Q2R_1.
  - intros a a' <- b b' <-. rewrite Q2R_red. apply Q2R_plus.
  - intros a a' <- b b' <-. rewrite Q2R_red. apply Q2R_minus.
  - intros a a' <- b b' <-. rewrite Q2R_red. apply Q2R_mult.
  - intros a a' <- b b' <-. rewrite Q2R_red. apply Q2R_div_total.
  - intros a a' <- b b' <-. apply bool_R_of_eq, Qltb_Rltb.
  - intros a a' <- b b' <-. apply bool_R_of_eq, Qeqb_Reqb.
  - intros z z' Hz. apply Z_R_eq in Hz. subst z'. apply Q2R_inject_Z.
Qed.

(* ------------------------------------------------------------------ *)
(* 2. Generic converters: a relation produced by Paramcoq at a data type
      is the graph of the corresponding "map Q2R" function.             *)

Class RelFun {A B : Type} (AR : A -> B -> Type) (f : A -> B) : Type := {
  r2f : forall a b, AR a b -> f a = b;
  f2r : forall a, AR a (f a)
}.

Definition pmap {A B C D} (f : A -> B) (g : C -> D) (p : A * C) : B * D :=
  (f (fst p), g (snd p)).

Parametricity Recursive res.
Parametricity Recursive ivspec.
Parametricity Recursive ctx.

Definition ivmap {A B} (f : A -> B) (iv : @ivspec A) : @ivspec B :=
  match iv with
  | IvNone => @IvNone B
  | IvOne a b => IvOne (f a) (f b)
  | IvMany l => IvMany (map (pmap f f) l)
  end.

Definition ctxmap {A B} (f : A -> B) (c : @ctx A) : @ctx B :=
  mkCtx (option_map f (c_prev c)) (f (c_cur c)) (option_map f (c_next c)).

Global Instance RF_QR : RelFun QR Q2R.
Proof. split; unfold QR; auto. Qed.

Lemma nat_R_refl (n : nat) : nat_R n n.
Proof. induction n; constructor; assumption. Qed.
Lemma nat_R_eq (n m : nat) : nat_R n m -> n = m.
Proof. induction 1; congruence. Qed.

Global Instance RF_bool : RelFun bool_R (fun b => b).
Proof. split; [apply bool_R_eq | apply bool_R_refl]. Qed.
Global Instance RF_nat : RelFun nat_R (fun n => n).
Proof. split; [apply nat_R_eq | apply nat_R_refl]. Qed.
Global Instance RF_Z : RelFun Z_R (fun n => n).
Proof. split; [apply Z_R_eq | apply Z_R_refl]. Qed.

Lemma err_R_refl (e : err) : err_R e e.
Proof. destruct e; constructor. Qed.
Lemma err_R_eq (e1 e2 : err) : err_R e1 e2 -> e1 = e2.
Proof. intros []; reflexivity. Qed.

Section Converters.
  Context {A B : Type} (AR : A -> B -> Type) (f : A -> B) {HA : RelFun AR f}.

  Lemma list_R_map (l1 : list A) (l2 : list B) : list_R A B AR l1 l2 -> map f l1 = l2.
  Proof. induction 1 as [ | a b Hab l1 l2 _ IH]; simpl; [reflexivity | ]. now rewrite (r2f _ _ Hab), IH. Qed.
  Lemma list_R_of_map (l : list A) : list_R A B AR l (map f l).
  Proof. induction l; simpl; constructor; [apply f2r | assumption]. Qed.
  Lemma list_R_of_map_eq (l1 : list A) (l2 : list B) : map f l1 = l2 -> list_R A B AR l1 l2.
  Proof. intros <-; apply list_R_of_map. Qed.

  Global Instance RF_list : RelFun (list_R A B AR) (map f).
  Proof. split; [apply list_R_map | apply list_R_of_map]. Qed.

  Lemma option_R_map (x : option A) (y : option B) : option_R A B AR x y -> option_map f x = y.
  Proof. intros [a b Hab | ]; simpl; [now rewrite (r2f _ _ Hab) | reflexivity]. Qed.
  Lemma option_R_of_map (x : option A) : option_R A B AR x (option_map f x).
  Proof. destruct x; simpl; constructor; apply f2r. Qed.

  Global Instance RF_option : RelFun (option_R A B AR) (option_map f).
  Proof. split; [apply option_R_map | apply option_R_of_map]. Qed.

  (* related results are both [Ok] of related values or the same [Err] *)
  Lemma res_R_inv (x : res A) (y : res B) :
    res_R A B AR x y ->
    match x, y with
    | Ok a, Ok b => AR a b
    | Err e, Err e' => e = e'
    | _, _ => False
    end.
  Proof. intros [a b Hab | e e' He]; [exact Hab | apply err_R_eq, He]. Qed.

  Lemma res_R_map (x : res A) (y : res B) : res_R A B AR x y -> rmap f x = y.
  Proof.
    intros [a b Hab | e e' He]; simpl; [now rewrite (r2f _ _ Hab) | now rewrite (err_R_eq _ _ He)].
  Qed.
  Lemma res_R_of_map (x : res A) : res_R A B AR x (rmap f x).
  Proof. destruct x; simpl; constructor; [apply f2r | apply err_R_refl]. Qed.

  Global Instance RF_res : RelFun (res_R A B AR) (rmap f).
  Proof. split; [apply res_R_map | apply res_R_of_map]. Qed.

  Lemma ctx_R_map (x : @ctx A) (y : @ctx B) : ctx_R A B AR x y -> ctxmap f x = y.
  Proof.
    intros [p p' Hp c c' Hc n n' Hn]. unfold ctxmap; simpl.
    now rewrite (option_R_map _ _ Hp), (r2f _ _ Hc), (option_R_map _ _ Hn).
  Qed.
  Lemma ctx_R_of_map (x : @ctx A) : ctx_R A B AR x (ctxmap f x).
  Proof. destruct x; unfold ctxmap; simpl; constructor; try apply option_R_of_map; apply f2r. Qed.

  Global Instance RF_ctx : RelFun (ctx_R A B AR) (ctxmap f).
  Proof. split; [apply ctx_R_map | apply ctx_R_of_map]. Qed.
End Converters.

Section ConvertersProd.
  Context {A B C D : Type} (AR : A -> B -> Type) (f : A -> B) {HA : RelFun AR f}
          (CR : C -> D -> Type) (g : C -> D) {HC : RelFun CR g}.

  Lemma prod_R_map (p : A * C) (q : B * D) : prod_R A B AR C D CR p q -> pmap f g p = q.
  Proof. intros [a b Hab c d Hcd]. unfold pmap; simpl. now rewrite (r2f _ _ Hab), (r2f _ _ Hcd). Qed.
  Lemma prod_R_of_map (p : A * C) : prod_R A B AR C D CR p (pmap f g p).
  Proof. destruct p; unfold pmap; simpl; constructor; apply f2r. Qed.

  Global Instance RF_prod : RelFun (prod_R A B AR C D CR) (pmap f g).
  Proof. split; [apply prod_R_map | apply prod_R_of_map]. Qed.
End ConvertersProd.

Section ConvertersIv.
  Context {A B : Type} (AR : A -> B -> Type) (f : A -> B) {HA : RelFun AR f}.

  Lemma ivspec_R_map (x : @ivspec A) (y : @ivspec B) : ivspec_R A B AR x y -> ivmap f x = y.
  Proof.
    intros [ | a a' Ha b b' Hb | l l' Hl]; simpl.
    - reflexivity.
    - now rewrite (r2f (f:=f) _ _ Ha), (r2f (f:=f) _ _ Hb).
    - f_equal. exact (r2f (f:=map (pmap f f)) _ _ Hl).
  Qed.
  Lemma ivspec_R_of_map (x : @ivspec A) : ivspec_R A B AR x (ivmap f x).
  Proof. destruct x; simpl; constructor; apply f2r. Qed.

  Global Instance RF_ivspec : RelFun (ivspec_R A B AR) (ivmap f).
  Proof. split; [apply ivspec_R_map | apply ivspec_R_of_map]. Qed.
End ConvertersIv.

(* [rmap f x = y] says: both [Ok] with [f a = b], or the same [Err] *)
Lemma rmap_match {A B : Type} (f : A -> B) (x : res A) (y : res B) :
  rmap f x = y <->
  match x, y with
  | Ok a, Ok b => f a = b
  | Err e, Err e' => e = e'
  | _, _ => False
  end.
Proof. destruct x, y; simpl; split; intros H; try congruence; try contradiction; discriminate. Qed.

(* explicit statements of the converters at QR (requested interface) *)
Lemma list_R_QR_iff (l1 : list Q) (l2 : list R) :
  (list_R Q R QR l1 l2 -> map Q2R l1 = l2) * (map Q2R l1 = l2 -> list_R Q R QR l1 l2).
Proof. split; [apply list_R_map | apply list_R_of_map_eq]; exact _. Qed.
Lemma prod_R_QR_eq (p : Q * Q) (q : R * R) :
  prod_R Q R QR Q R QR p q -> (Q2R (fst p), Q2R (snd p)) = q.
Proof. apply (prod_R_map QR Q2R QR Q2R). Qed.
Lemma option_R_QR_eq (x : option Q) (y : option R) :
  option_R Q R QR x y -> option_map Q2R x = y.
Proof. apply (option_R_map QR Q2R). Qed.

(* ------------------------------------------------------------------ *)
(* 3. Transfer theorems                                                *)

Lemma transfer {A B : Type} (AR : A -> B -> Type) (f : A -> B) {H : RelFun AR f}
      (a : A) (b : B) : AR a b -> f a = b.
Proof. apply r2f. Qed.

(* shapes of the "map Q2R" functions *)
Notation qL := (map Q2R).                                  (* list F *)
Notation q2 := (pmap Q2R Q2R).                             (* F * F *)
Notation q3 := (pmap (pmap Q2R Q2R) Q2R).                  (* F * F * F *)
Notation qLL := (pmap (map Q2R) (map Q2R)).                (* list F * list F *)
Notation qLLL := (pmap (pmap (map Q2R) (map Q2R)) (map Q2R)).
Notation qTrain := (pmap (pmap (map Q2R) Q2R) Q2R).        (* train *)
Notation qIv := (option_map (pmap Q2R Q2R)).               (* option (F * F) *)
Notation qCtx := (option_map (ctxmap Q2R)).                (* option ctx *)

Lemma list_nat_R_refl (l : list nat) : list_R nat nat nat_R l l.
Proof. induction l; constructor; [apply nat_R_refl | assumption]. Qed.
Lemma list_bool_R_refl (l : list bool) : list_R bool bool bool_R l l.
Proof. induction l; constructor; [apply bool_R_refl | assumption]. Qed.
Lemma idx_R_refl (i : option (list nat)) : option_R _ _ (list_R nat nat nat_R) i i.
Proof. destruct i; constructor; apply list_nat_R_refl. Qed.

(* side conditions of an instantiated [f_R]: related arguments *)
Ltac rel_arg :=
  first [ exact QR_ops
        | apply bool_R_refl
        | apply nat_R_refl
        | apply idx_R_refl
        | apply list_nat_R_refl
        | apply list_bool_R_refl
        | apply (f2r (f := Q2R))
        | eapply f2r ].

(* [transfer_by f_R]: goal  mapT (f QOps args) = f ROps (mapT' args) *)
Ltac transfer_by HR :=
  intros;
  eapply transfer; [ typeclasses eauto | ];
  eapply HR; rel_arg.
(* results without numbers (nat, bool) *)
Ltac transfer_id_by HR :=
  intros; first [ apply nat_R_eq | apply bool_R_eq ]; eapply HR; rel_arg.


Parametricity Recursive isi_ratio.
Theorem isi_ratio_transfer m a b :
  Q2R (isi_ratio QOps m a b) = isi_ratio ROps (Q2R m) (Q2R a) (Q2R b).
Proof. transfer_by isi_ratio_R. Qed.

Parametricity Recursive isi_profile_py.
Theorem isi_profile_py_transfer s1 s2 ts te m :
  qLL (isi_profile_py QOps s1 s2 ts te m)
  = isi_profile_py ROps (qL s1) (qL s2) (Q2R ts) (Q2R te) (Q2R m).
Proof. transfer_by isi_profile_py_R. Qed.

(* Fixpoints whose body mentions the structural argument again make Paramcoq
   ask for the unfolding equation  body = fix ; in this installation the
   obligation is not presented interactively, it must be solved by the
   registered tactic: destruct the structural argument, then reflexivity. *)
Ltac destruct_reflexivity :=
  intros;
  repeat match goal with
         | [ x : _ |- _ = _ ] => destruct x; reflexivity; fail
         end.
Global Parametricity Tactic := destruct_reflexivity.

(* wrappers: the generic scans instantiated with the two window functions *)
Definition sync_kernel {F} (o : NumOps F) := coincidence_profile_gen o (get_tau o).
Definition sync_kernel_cy {F} (o : NumOps F) := coincidence_profile_gen o (get_tau_cy o).
Definition order_kernel {F} (o : NumOps F) := order_profile_gen o (get_tau o).
Definition order_kernel_cy {F} (o : NumOps F) := order_profile_gen o (get_tau_cy o).
Definition dir_kernel {F} (o : NumOps F) := directionality_profile_gen o (get_tau o).
Definition dir_kernel_cy {F} (o : NumOps F) := directionality_profile_gen o (get_tau_cy o).
Definition single_kernel {F} (o : NumOps F) := coincidence_single_gen o (get_tau o).
Definition single_kernel_cy {F} (o : NumOps F) := coincidence_single_gen o (get_tau_cy o).
Definition coinc_value_kernel {F} (o : NumOps F) := coincidence_value_gen o (get_tau o).
Definition coinc_value_kernel_cy {F} (o : NumOps F) := coincidence_value_gen o (get_tau_cy o).
Definition order_value_kernel {F} (o : NumOps F) (s1 s2 : list F) (ts te mt mrts : F) : F * F :=
  order_value o (coinc_scan o (tau_fn o (get_tau o) ts te mt mrts) s1 s2) (n0 o) (n0 o).
Definition order_value_kernel_cy {F} (o : NumOps F) (s1 s2 : list F) (ts te mt mrts : F) : F * F :=
  order_value o (coinc_scan o (tau_fn o (get_tau_cy o) ts te mt mrts) s1 s2) (n0 o) (n0 o).
Definition dir_value_kernel {F} (o : NumOps F) (s1 s2 : list F) (ts te mt mrts : F) : F :=
  dir_value o (coinc_scan o (tau_fn o (get_tau o) ts te mt mrts) s1 s2) (n0 o).
Definition dir_value_kernel_cy {F} (o : NumOps F) (s1 s2 : list F) (ts te mt mrts : F) : F :=
  dir_value o (coinc_scan o (tau_fn o (get_tau_cy o) ts te mt mrts) s1 s2) (n0 o).

(* kernels *)

Parametricity Recursive isi_profile_cy.
Theorem isi_profile_cy_transfer s1 s2 ts te m :
  qLL (isi_profile_cy QOps s1 s2 ts te m)
  = isi_profile_cy ROps (qL s1) (qL s2) (Q2R ts) (Q2R te) (Q2R m).
Proof. transfer_by isi_profile_cy_R. Qed.

Parametricity Recursive isi_distance_cy.
Theorem isi_distance_cy_transfer s1 s2 ts te m :
  Q2R (isi_distance_cy QOps s1 s2 ts te m)
  = isi_distance_cy ROps (qL s1) (qL s2) (Q2R ts) (Q2R te) (Q2R m).
Proof. transfer_by isi_distance_cy_R. Qed.

Parametricity Recursive get_min_dist.
Theorem get_min_dist_transfer x l a0 a1 :
  Q2R (get_min_dist QOps x l a0 a1)
  = get_min_dist ROps (Q2R x) (qL l) (Q2R a0) (Q2R a1).
Proof. transfer_by get_min_dist_R. Qed.

Parametricity Recursive dist_at_t.
Theorem dist_at_t_transfer isi1 isi2 s1 s2 m ri :
  Q2R (dist_at_t QOps isi1 isi2 s1 s2 m ri)
  = dist_at_t ROps (Q2R isi1) (Q2R isi2) (Q2R s1) (Q2R s2) (Q2R m) ri.
Proof. transfer_by dist_at_t_R. Qed.

Parametricity Recursive spike_profile_py.
Theorem spike_profile_py_transfer t1 t2 ts te m ri :
  qLLL (spike_profile_py QOps t1 t2 ts te m ri)
  = spike_profile_py ROps (qL t1) (qL t2) (Q2R ts) (Q2R te) (Q2R m) ri.
Proof. transfer_by spike_profile_py_R. Qed.

Parametricity Recursive spike_profile_cy.
Theorem spike_profile_cy_transfer t1 t2 ts te m ri :
  qLLL (spike_profile_cy QOps t1 t2 ts te m ri)
  = spike_profile_cy ROps (qL t1) (qL t2) (Q2R ts) (Q2R te) (Q2R m) ri.
Proof. transfer_by spike_profile_cy_R. Qed.

Parametricity Recursive spike_distance_cy.
Theorem spike_distance_cy_transfer t1 t2 ts te m ri :
  Q2R (spike_distance_cy QOps t1 t2 ts te m ri)
  = spike_distance_cy ROps (qL t1) (qL t2) (Q2R ts) (Q2R te) (Q2R m) ri.
Proof. transfer_by spike_distance_cy_R. Qed.

Parametricity Recursive interp.
Theorem interp_transfer a b t :
  Q2R (interp QOps a b t)
  = interp ROps (Q2R a) (Q2R b) (Q2R t).
Proof. transfer_by interp_R. Qed.

Parametricity Recursive interp_cy.
Theorem interp_cy_transfer a b t :
  Q2R (interp_cy QOps a b t)
  = interp_cy ROps (Q2R a) (Q2R b) (Q2R t).
Proof. transfer_by interp_cy_R. Qed.

Parametricity Recursive get_tau.
Theorem get_tau_transfer c1 c2 lim mrts :
  Q2R (get_tau QOps c1 c2 lim mrts)
  = get_tau ROps (qCtx c1) (qCtx c2) (Q2R lim) (Q2R mrts).
Proof. transfer_by get_tau_R. Qed.

Parametricity Recursive get_tau_cy.
Theorem get_tau_cy_transfer c1 c2 lim mrts :
  Q2R (get_tau_cy QOps c1 c2 lim mrts)
  = get_tau_cy ROps (qCtx c1) (qCtx c2) (Q2R lim) (Q2R mrts).
Proof. transfer_by get_tau_cy_R. Qed.

Parametricity Recursive true_max.
Theorem true_max_transfer ts te mt :
  Q2R (true_max QOps ts te mt)
  = true_max ROps (Q2R ts) (Q2R te) (Q2R mt).
Proof. transfer_by true_max_R. Qed.

Parametricity Recursive sync_kernel.
Theorem sync_kernel_transfer s1 s2 ts te mt mrts :
  (map q3) (sync_kernel QOps s1 s2 ts te mt mrts)
  = sync_kernel ROps (qL s1) (qL s2) (Q2R ts) (Q2R te) (Q2R mt) (Q2R mrts).
Proof. transfer_by sync_kernel_R. Qed.

Parametricity Recursive sync_kernel_cy.
Theorem sync_kernel_cy_transfer s1 s2 ts te mt mrts :
  (map q3) (sync_kernel_cy QOps s1 s2 ts te mt mrts)
  = sync_kernel_cy ROps (qL s1) (qL s2) (Q2R ts) (Q2R te) (Q2R mt) (Q2R mrts).
Proof. transfer_by sync_kernel_cy_R. Qed.

Parametricity Recursive order_kernel.
Theorem order_kernel_transfer s1 s2 ts te mt mrts :
  (map q3) (order_kernel QOps s1 s2 ts te mt mrts)
  = order_kernel ROps (qL s1) (qL s2) (Q2R ts) (Q2R te) (Q2R mt) (Q2R mrts).
Proof. transfer_by order_kernel_R. Qed.

Parametricity Recursive order_kernel_cy.
Theorem order_kernel_cy_transfer s1 s2 ts te mt mrts :
  (map q3) (order_kernel_cy QOps s1 s2 ts te mt mrts)
  = order_kernel_cy ROps (qL s1) (qL s2) (Q2R ts) (Q2R te) (Q2R mt) (Q2R mrts).
Proof. transfer_by order_kernel_cy_R. Qed.

Parametricity Recursive dir_kernel.
Theorem dir_kernel_transfer s1 s2 ts te mt mrts :
  qLL (dir_kernel QOps s1 s2 ts te mt mrts)
  = dir_kernel ROps (qL s1) (qL s2) (Q2R ts) (Q2R te) (Q2R mt) (Q2R mrts).
Proof. transfer_by dir_kernel_R. Qed.

Parametricity Recursive dir_kernel_cy.
Theorem dir_kernel_cy_transfer s1 s2 ts te mt mrts :
  qLL (dir_kernel_cy QOps s1 s2 ts te mt mrts)
  = dir_kernel_cy ROps (qL s1) (qL s2) (Q2R ts) (Q2R te) (Q2R mt) (Q2R mrts).
Proof. transfer_by dir_kernel_cy_R. Qed.

Parametricity Recursive single_kernel.
Theorem single_kernel_transfer s1 s2 ts te mt mrts :
  qL (single_kernel QOps s1 s2 ts te mt mrts)
  = single_kernel ROps (qL s1) (qL s2) (Q2R ts) (Q2R te) (Q2R mt) (Q2R mrts).
Proof. transfer_by single_kernel_R. Qed.

Parametricity Recursive single_kernel_cy.
Theorem single_kernel_cy_transfer s1 s2 ts te mt mrts :
  qL (single_kernel_cy QOps s1 s2 ts te mt mrts)
  = single_kernel_cy ROps (qL s1) (qL s2) (Q2R ts) (Q2R te) (Q2R mt) (Q2R mrts).
Proof. transfer_by single_kernel_cy_R. Qed.

Parametricity Recursive coinc_value_kernel.
Theorem coinc_value_kernel_transfer s1 s2 ts te mt mrts :
  q2 (coinc_value_kernel QOps s1 s2 ts te mt mrts)
  = coinc_value_kernel ROps (qL s1) (qL s2) (Q2R ts) (Q2R te) (Q2R mt) (Q2R mrts).
Proof. transfer_by coinc_value_kernel_R. Qed.

Parametricity Recursive coinc_value_kernel_cy.
Theorem coinc_value_kernel_cy_transfer s1 s2 ts te mt mrts :
  q2 (coinc_value_kernel_cy QOps s1 s2 ts te mt mrts)
  = coinc_value_kernel_cy ROps (qL s1) (qL s2) (Q2R ts) (Q2R te) (Q2R mt) (Q2R mrts).
Proof. transfer_by coinc_value_kernel_cy_R. Qed.

Parametricity Recursive order_value_kernel.
Theorem order_value_kernel_transfer s1 s2 ts te mt mrts :
  q2 (order_value_kernel QOps s1 s2 ts te mt mrts)
  = order_value_kernel ROps (qL s1) (qL s2) (Q2R ts) (Q2R te) (Q2R mt) (Q2R mrts).
Proof. transfer_by order_value_kernel_R. Qed.

Parametricity Recursive order_value_kernel_cy.
Theorem order_value_kernel_cy_transfer s1 s2 ts te mt mrts :
  q2 (order_value_kernel_cy QOps s1 s2 ts te mt mrts)
  = order_value_kernel_cy ROps (qL s1) (qL s2) (Q2R ts) (Q2R te) (Q2R mt) (Q2R mrts).
Proof. transfer_by order_value_kernel_cy_R. Qed.

Parametricity Recursive dir_value_kernel.
Theorem dir_value_kernel_transfer s1 s2 ts te mt mrts :
  Q2R (dir_value_kernel QOps s1 s2 ts te mt mrts)
  = dir_value_kernel ROps (qL s1) (qL s2) (Q2R ts) (Q2R te) (Q2R mt) (Q2R mrts).
Proof. transfer_by dir_value_kernel_R. Qed.

Parametricity Recursive dir_value_kernel_cy.
Theorem dir_value_kernel_cy_transfer s1 s2 ts te mt mrts :
  Q2R (dir_value_kernel_cy QOps s1 s2 ts te mt mrts)
  = dir_value_kernel_cy ROps (qL s1) (qL s2) (Q2R ts) (Q2R te) (Q2R mt) (Q2R mrts).
Proof. transfer_by dir_value_kernel_cy_R. Qed.

(* function classes *)

Parametricity Recursive pwc_add.
Theorem pwc_add_transfer f g :
  (rmap qLL) (pwc_add QOps f g)
  = pwc_add ROps (qLL f) (qLL g).
Proof. transfer_by pwc_add_R. Qed.

Parametricity Recursive pwc_integral.
Theorem pwc_integral_transfer f iv :
  (rmap Q2R) (pwc_integral QOps f iv)
  = pwc_integral ROps (qLL f) (qIv iv).
Proof. transfer_by pwc_integral_R. Qed.

Parametricity Recursive pwc_avrg.
Theorem pwc_avrg_transfer f iv :
  (rmap Q2R) (pwc_avrg QOps f iv)
  = pwc_avrg ROps (qLL f) ((ivmap Q2R) iv).
Proof. transfer_by pwc_avrg_R. Qed.

Parametricity Recursive pwc_call_scalar.
Theorem pwc_call_scalar_transfer f t :
  (rmap Q2R) (pwc_call_scalar QOps f t)
  = pwc_call_scalar ROps (qLL f) (Q2R t).
Proof. transfer_by pwc_call_scalar_R. Qed.

Parametricity Recursive pwc_call_seq1.
Theorem pwc_call_seq1_transfer f t :
  (rmap Q2R) (pwc_call_seq1 QOps f t)
  = pwc_call_seq1 ROps (qLL f) (Q2R t).
Proof. transfer_by pwc_call_seq1_R. Qed.

Parametricity Recursive pwc_mul.
Theorem pwc_mul_transfer f c :
  qLL (pwc_mul QOps f c)
  = pwc_mul ROps (qLL f) (Q2R c).
Proof. transfer_by pwc_mul_R. Qed.

Parametricity Recursive pwc_plottable.
Theorem pwc_plottable_transfer f :
  qLL (pwc_plottable f)
  = pwc_plottable (qLL f).
Proof. transfer_by pwc_plottable_R. Qed.

Parametricity Recursive pwl_add.
Theorem pwl_add_transfer f g :
  (rmap qLLL) (pwl_add QOps f g)
  = pwl_add ROps (qLLL f) (qLLL g).
Proof. transfer_by pwl_add_R. Qed.

Parametricity Recursive pwl_integral.
Theorem pwl_integral_transfer f iv :
  (rmap Q2R) (pwl_integral QOps f iv)
  = pwl_integral ROps (qLLL f) (qIv iv).
Proof. transfer_by pwl_integral_R. Qed.

Parametricity Recursive pwl_avrg.
Theorem pwl_avrg_transfer f iv :
  (rmap Q2R) (pwl_avrg QOps f iv)
  = pwl_avrg ROps (qLLL f) ((ivmap Q2R) iv).
Proof. transfer_by pwl_avrg_R. Qed.

Parametricity Recursive pwl_call_scalar.
Theorem pwl_call_scalar_transfer f t :
  (rmap Q2R) (pwl_call_scalar QOps f t)
  = pwl_call_scalar ROps (qLLL f) (Q2R t).
Proof. transfer_by pwl_call_scalar_R. Qed.

Parametricity Recursive pwl_call_seq1.
Theorem pwl_call_seq1_transfer f t :
  (rmap Q2R) (pwl_call_seq1 QOps f t)
  = pwl_call_seq1 ROps (qLLL f) (Q2R t).
Proof. transfer_by pwl_call_seq1_R. Qed.

Parametricity Recursive pwl_mul.
Theorem pwl_mul_transfer f c :
  qLLL (pwl_mul QOps f c)
  = pwl_mul ROps (qLLL f) (Q2R c).
Proof. transfer_by pwl_mul_R. Qed.

Parametricity Recursive pwl_plottable.
Theorem pwl_plottable_transfer f :
  qLL (pwl_plottable f)
  = pwl_plottable (qLLL f).
Proof. transfer_by pwl_plottable_R. Qed.

Parametricity Recursive df_add.
Theorem df_add_transfer f g :
  (rmap (map q3)) (df_add QOps f g)
  = df_add ROps ((map q3) f) ((map q3) g).
Proof. transfer_by df_add_R. Qed.

Parametricity Recursive df_integral.
Theorem df_integral_transfer f iv :
  (rmap q2) (df_integral QOps f iv)
  = df_integral ROps ((map q3) f) ((ivmap Q2R) iv).
Proof. transfer_by df_integral_R. Qed.

Parametricity Recursive df_avrg.
Theorem df_avrg_transfer f iv normalize :
  (rmap Q2R) (df_avrg QOps f iv normalize)
  = df_avrg ROps ((map q3) f) ((ivmap Q2R) iv) normalize.
Proof. transfer_by df_avrg_R. Qed.

Parametricity Recursive df_mul.
Theorem df_mul_transfer f c :
  (map q3) (df_mul QOps f c)
  = df_mul ROps ((map q3) f) (Q2R c).
Proof. transfer_by df_mul_R. Qed.

Parametricity Recursive df_plottable.
Theorem df_plottable_transfer f k :
  qLL (df_plottable QOps f k)
  = df_plottable ROps ((map q3) f) k.
Proof. transfer_by df_plottable_R. Qed.

(* API *)

Parametricity Recursive sort_unique.
Theorem sort_unique_transfer l :
  qL (sort_unique QOps l)
  = sort_unique ROps (qL l).
Proof. transfer_by sort_unique_R. Qed.

Parametricity Recursive sort_list.
Theorem sort_list_transfer l :
  qL (sort_list QOps l)
  = sort_list ROps (qL l).
Proof. transfer_by sort_list_R. Qed.

Parametricity Recursive reconcile.
Theorem reconcile_transfer eps l :
  (map qTrain) (reconcile QOps eps l)
  = reconcile ROps (Q2R eps) ((map qTrain) l).
Proof. transfer_by reconcile_R. Qed.

Parametricity Recursive spikes_non_empty.
Theorem spikes_non_empty_transfer t :
  qL (spikes_non_empty QOps t)
  = spikes_non_empty ROps (qTrain t).
Proof. transfer_by spikes_non_empty_R. Qed.

Parametricity Recursive isi_lengths.
Theorem isi_lengths_transfer s ts te :
  qL (isi_lengths QOps s ts te)
  = isi_lengths ROps (qL s) (Q2R ts) (Q2R te).
Proof. transfer_by isi_lengths_R. Qed.

Parametricity Recursive default_thresh_sq.
Theorem default_thresh_sq_transfer l :
  Q2R (default_thresh_sq QOps l)
  = default_thresh_sq ROps ((map qTrain) l).
Proof. transfer_by default_thresh_sq_R. Qed.

Parametricity Recursive isi_profile_bi.
Theorem isi_profile_bi_transfer eps cy rc m a b :
  qLL (isi_profile_bi QOps eps cy rc m a b)
  = isi_profile_bi ROps (Q2R eps) cy rc (Q2R m) (qTrain a) (qTrain b).
Proof. transfer_by isi_profile_bi_R. Qed.

Parametricity Recursive spike_profile_bi.
Theorem spike_profile_bi_transfer eps cy rc m ri a b :
  qLLL (spike_profile_bi QOps eps cy rc m ri a b)
  = spike_profile_bi ROps (Q2R eps) cy rc (Q2R m) ri (qTrain a) (qTrain b).
Proof. transfer_by spike_profile_bi_R. Qed.

Parametricity Recursive spike_sync_profile_bi.
Theorem spike_sync_profile_bi_transfer eps cy rc mt m a b :
  (map q3) (spike_sync_profile_bi QOps eps cy rc mt m a b)
  = spike_sync_profile_bi ROps (Q2R eps) cy rc (Q2R mt) (Q2R m) (qTrain a) (qTrain b).
Proof. transfer_by spike_sync_profile_bi_R. Qed.

Parametricity Recursive order_profile_bi.
Theorem order_profile_bi_transfer eps cy rc mt m a b :
  (rmap (map q3)) (order_profile_bi QOps eps cy rc mt m a b)
  = order_profile_bi ROps (Q2R eps) cy rc (Q2R mt) (Q2R m) (qTrain a) (qTrain b).
Proof. transfer_by order_profile_bi_R. Qed.

Parametricity Recursive isi_distance_bi.
Theorem isi_distance_bi_transfer eps cy rc m iv a b :
  (rmap Q2R) (isi_distance_bi QOps eps cy rc m iv a b)
  = isi_distance_bi ROps (Q2R eps) cy rc (Q2R m) (qIv iv) (qTrain a) (qTrain b).
Proof. transfer_by isi_distance_bi_R. Qed.

Parametricity Recursive spike_distance_bi.
Theorem spike_distance_bi_transfer eps cy rc m ri iv a b :
  (rmap Q2R) (spike_distance_bi QOps eps cy rc m ri iv a b)
  = spike_distance_bi ROps (Q2R eps) cy rc (Q2R m) ri (qIv iv) (qTrain a) (qTrain b).
Proof. transfer_by spike_distance_bi_R. Qed.

Parametricity Recursive spike_sync_values.
Theorem spike_sync_values_transfer eps cy mt m iv a b :
  (rmap q2) (spike_sync_values QOps eps cy mt m iv a b)
  = spike_sync_values ROps (Q2R eps) cy (Q2R mt) (Q2R m) (qIv iv) (qTrain a) (qTrain b).
Proof. transfer_by spike_sync_values_R. Qed.

Parametricity Recursive spike_sync_bi.
Theorem spike_sync_bi_transfer eps cy rc mt m iv a b :
  (rmap Q2R) (spike_sync_bi QOps eps cy rc mt m iv a b)
  = spike_sync_bi ROps (Q2R eps) cy rc (Q2R mt) (Q2R m) (qIv iv) (qTrain a) (qTrain b).
Proof. transfer_by spike_sync_bi_R. Qed.

Parametricity Recursive isi_profile_multi.
Theorem isi_profile_multi_transfer eps cy rc m l idx :
  (rmap qLL) (isi_profile_multi QOps eps cy rc m l idx)
  = isi_profile_multi ROps (Q2R eps) cy rc (Q2R m) ((map qTrain) l) idx.
Proof. transfer_by isi_profile_multi_R. Qed.

Parametricity Recursive spike_profile_multi.
Theorem spike_profile_multi_transfer eps cy rc m ri l idx :
  (rmap qLLL) (spike_profile_multi QOps eps cy rc m ri l idx)
  = spike_profile_multi ROps (Q2R eps) cy rc (Q2R m) ri ((map qTrain) l) idx.
Proof. transfer_by spike_profile_multi_R. Qed.

Parametricity Recursive spike_sync_profile_multi.
Theorem spike_sync_profile_multi_transfer eps cy rc mt m l idx :
  (rmap (map q3)) (spike_sync_profile_multi QOps eps cy rc mt m l idx)
  = spike_sync_profile_multi ROps (Q2R eps) cy rc (Q2R mt) (Q2R m) ((map qTrain) l) idx.
Proof. transfer_by spike_sync_profile_multi_R. Qed.

Parametricity Recursive order_profile_multi.
Theorem order_profile_multi_transfer eps cy rc mt m l idx :
  (rmap (map q3)) (order_profile_multi QOps eps cy rc mt m l idx)
  = order_profile_multi ROps (Q2R eps) cy rc (Q2R mt) (Q2R m) ((map qTrain) l) idx.
Proof. transfer_by order_profile_multi_R. Qed.

Parametricity Recursive isi_distance_multi.
Theorem isi_distance_multi_transfer eps cy rc m iv l idx :
  (rmap Q2R) (isi_distance_multi QOps eps cy rc m iv l idx)
  = isi_distance_multi ROps (Q2R eps) cy rc (Q2R m) (qIv iv) ((map qTrain) l) idx.
Proof. transfer_by isi_distance_multi_R. Qed.

Parametricity Recursive spike_distance_multi.
Theorem spike_distance_multi_transfer eps cy rc m ri iv l idx :
  (rmap Q2R) (spike_distance_multi QOps eps cy rc m ri iv l idx)
  = spike_distance_multi ROps (Q2R eps) cy rc (Q2R m) ri (qIv iv) ((map qTrain) l) idx.
Proof. transfer_by spike_distance_multi_R. Qed.

Parametricity Recursive spike_sync_multi.
Theorem spike_sync_multi_transfer eps cy rc mt m iv l idx :
  (rmap Q2R) (spike_sync_multi QOps eps cy rc mt m iv l idx)
  = spike_sync_multi ROps (Q2R eps) cy rc (Q2R mt) (Q2R m) (qIv iv) ((map qTrain) l) idx.
Proof. transfer_by spike_sync_multi_R. Qed.

Parametricity Recursive isi_distance_matrix.
Theorem isi_distance_matrix_transfer eps cy rc m iv l idx :
  (rmap (map qL)) (isi_distance_matrix QOps eps cy rc m iv l idx)
  = isi_distance_matrix ROps (Q2R eps) cy rc (Q2R m) (qIv iv) ((map qTrain) l) idx.
Proof. transfer_by isi_distance_matrix_R. Qed.

Parametricity Recursive spike_distance_matrix.
Theorem spike_distance_matrix_transfer eps cy rc m ri iv l idx :
  (rmap (map qL)) (spike_distance_matrix QOps eps cy rc m ri iv l idx)
  = spike_distance_matrix ROps (Q2R eps) cy rc (Q2R m) ri (qIv iv) ((map qTrain) l) idx.
Proof. transfer_by spike_distance_matrix_R. Qed.

Parametricity Recursive spike_sync_matrix.
Theorem spike_sync_matrix_transfer eps cy rc mt m iv l idx :
  (rmap (map qL)) (spike_sync_matrix QOps eps cy rc mt m iv l idx)
  = spike_sync_matrix ROps (Q2R eps) cy rc (Q2R mt) (Q2R m) (qIv iv) ((map qTrain) l) idx.
Proof. transfer_by spike_sync_matrix_R. Qed.

Parametricity Recursive filter_by_spike_sync.
Theorem filter_by_spike_sync_transfer eps cy rc mt m thr l :
  (map (pmap qTrain qTrain)) (filter_by_spike_sync QOps eps cy rc mt m thr l)
  = filter_by_spike_sync ROps (Q2R eps) cy rc (Q2R mt) (Q2R m) (Q2R thr) ((map qTrain) l).
Proof. transfer_by filter_by_spike_sync_R. Qed.

Parametricity Recursive order_impl.
Theorem order_impl_transfer eps cy mt m a b :
  (rmap q2) (order_impl QOps eps cy mt m a b)
  = order_impl ROps (Q2R eps) cy (Q2R mt) (Q2R m) (qTrain a) (qTrain b).
Proof. transfer_by order_impl_R. Qed.

Parametricity Recursive spike_train_order_bi.
Theorem spike_train_order_bi_transfer eps cy rc normalize mt m a b :
  (rmap Q2R) (spike_train_order_bi QOps eps cy rc normalize mt m a b)
  = spike_train_order_bi ROps (Q2R eps) cy rc normalize (Q2R mt) (Q2R m) (qTrain a) (qTrain b).
Proof. transfer_by spike_train_order_bi_R. Qed.

Parametricity Recursive spike_train_order_multi.
Theorem spike_train_order_multi_transfer eps cy rc normalize mt m l idx :
  (rmap Q2R) (spike_train_order_multi QOps eps cy rc normalize mt m l idx)
  = spike_train_order_multi ROps (Q2R eps) cy rc normalize (Q2R mt) (Q2R m) ((map qTrain) l) idx.
Proof. transfer_by spike_train_order_multi_R. Qed.

Parametricity Recursive directionality_values.
Theorem directionality_values_transfer eps cy rc mt m l idx :
  (rmap (map qL)) (directionality_values QOps eps cy rc mt m l idx)
  = directionality_values ROps (Q2R eps) cy rc (Q2R mt) (Q2R m) ((map qTrain) l) idx.
Proof. transfer_by directionality_values_R. Qed.

Parametricity Recursive spike_directionality.
Theorem spike_directionality_transfer eps cy rc normalize mt m a b :
  (rmap Q2R) (spike_directionality QOps eps cy rc normalize mt m a b)
  = spike_directionality ROps (Q2R eps) cy rc normalize (Q2R mt) (Q2R m) (qTrain a) (qTrain b).
Proof. transfer_by spike_directionality_R. Qed.

Parametricity Recursive spike_directionality_matrix.
Theorem spike_directionality_matrix_transfer eps cy rc normalize mt m l idx :
  (rmap (map qL)) (spike_directionality_matrix QOps eps cy rc normalize mt m l idx)
  = spike_directionality_matrix ROps (Q2R eps) cy rc normalize (Q2R mt) (Q2R m) ((map qTrain) l) idx.
Proof. transfer_by spike_directionality_matrix_R. Qed.

Parametricity Recursive merge_spike_trains.
Theorem merge_spike_trains_transfer l :
  qTrain (merge_spike_trains QOps l)
  = merge_spike_trains ROps ((map qTrain) l).
Proof. transfer_by merge_spike_trains_R. Qed.

Parametricity Recursive time_series_row.
Theorem time_series_row_transfer start bin row :
  qTrain (time_series_row QOps start bin row)
  = time_series_row ROps (Q2R start) (Q2R bin) row.
Proof. transfer_by time_series_row_R. Qed.

Parametricity Recursive hist_counts.
Theorem hist_counts_transfer edges xs :
  qL (hist_counts QOps edges xs)
  = hist_counts ROps (qL edges) (qL xs).
Proof. transfer_by hist_counts_R. Qed.

(* specifications (Spec.v) *)

Parametricity Recursive isi_len_at.
Theorem isi_len_at_transfer ts te u t :
  Q2R (isi_len_at QOps ts te u t)
  = isi_len_at ROps (Q2R ts) (Q2R te) (qL u) (Q2R t).
Proof. transfer_by isi_len_at_R. Qed.

Parametricity Recursive isi_spec.
Theorem isi_spec_transfer s1 s2 ts te m :
  qLL (isi_spec QOps s1 s2 ts te m)
  = isi_spec ROps (qL s1) (qL s2) (Q2R ts) (Q2R te) (Q2R m).
Proof. transfer_by isi_spec_R. Qed.

Parametricity Recursive spike_spec.
Theorem spike_spec_transfer s1 s2 ts te m ri :
  qLLL (spike_spec QOps s1 s2 ts te m ri)
  = spike_spec ROps (qL s1) (qL s2) (Q2R ts) (Q2R te) (Q2R m) ri.
Proof. transfer_by spike_spec_R. Qed.

Parametricity Recursive lim_of.
Theorem lim_of_transfer ts te mt :
  Q2R (lim_of QOps ts te mt)
  = lim_of ROps (Q2R ts) (Q2R te) (Q2R mt).
Proof. transfer_by lim_of_R. Qed.

Parametricity Recursive sync_spec.
Theorem sync_spec_transfer s1 s2 ts te mt mrts :
  (map q3) (sync_spec QOps s1 s2 ts te mt mrts)
  = sync_spec ROps (qL s1) (qL s2) (Q2R ts) (Q2R te) (Q2R mt) (Q2R mrts).
Proof. transfer_by sync_spec_R. Qed.

Parametricity Recursive single_spec.
Theorem single_spec_transfer s1 s2 ts te mt mrts :
  qL (single_spec QOps s1 s2 ts te mt mrts)
  = single_spec ROps (qL s1) (qL s2) (Q2R ts) (Q2R te) (Q2R mt) (Q2R mrts).
Proof. transfer_by single_spec_R. Qed.

Parametricity Recursive order_spec.
Theorem order_spec_transfer s1 s2 ts te mt mrts :
  (map q3) (order_spec QOps s1 s2 ts te mt mrts)
  = order_spec ROps (qL s1) (qL s2) (Q2R ts) (Q2R te) (Q2R mt) (Q2R mrts).
Proof. transfer_by order_spec_R. Qed.

Parametricity Recursive dir_spec.
Theorem dir_spec_transfer s1 s2 ts te mt mrts :
  qLL (dir_spec QOps s1 s2 ts te mt mrts)
  = dir_spec ROps (qL s1) (qL s2) (Q2R ts) (Q2R te) (Q2R mt) (Q2R mrts).
Proof. transfer_by dir_spec_R. Qed.

Parametricity Recursive filter_spec.
Theorem filter_spec_transfer mt mrts thr l :
  (map qLL) (filter_spec QOps mt mrts thr l)
  = filter_spec ROps (Q2R mt) (Q2R mrts) (Q2R thr) ((map qTrain) l).
Proof. transfer_by filter_spec_R. Qed.

Parametricity Recursive pwc_overlap.
Theorem pwc_overlap_transfer xs ys a b :
  Q2R (pwc_overlap QOps xs ys a b)
  = pwc_overlap ROps (qL xs) (qL ys) (Q2R a) (Q2R b).
Proof. transfer_by pwc_overlap_R. Qed.

Parametricity Recursive pwl_overlap.
Theorem pwl_overlap_transfer xs y1 y2 a b :
  Q2R (pwl_overlap QOps xs y1 y2 a b)
  = pwl_overlap ROps (qL xs) (qL y1) (qL y2) (Q2R a) (Q2R b).
Proof. transfer_by pwl_overlap_R. Qed.

Parametricity Recursive pwc_eval.
Theorem pwc_eval_transfer f t :
  (option_map Q2R) (pwc_eval QOps f t)
  = pwc_eval ROps (qLL f) (Q2R t).
Proof. transfer_by pwc_eval_R. Qed.

Parametricity Recursive pwl_eval.
Theorem pwl_eval_transfer f t :
  (option_map Q2R) (pwl_eval QOps f t)
  = pwl_eval ROps (qLLL f) (Q2R t).
Proof. transfer_by pwl_eval_R. Qed.

Parametricity Recursive pwc_add_spec.
Theorem pwc_add_spec_transfer f g :
  qLL (pwc_add_spec QOps f g)
  = pwc_add_spec ROps (qLL f) (qLL g).
Proof. transfer_by pwc_add_spec_R. Qed.

Parametricity Recursive pwl_add_spec.
Theorem pwl_add_spec_transfer f g :
  qLLL (pwl_add_spec QOps f g)
  = pwl_add_spec ROps (qLLL f) (qLLL g).
Proof. transfer_by pwl_add_spec_R. Qed.

Parametricity Recursive df_add_spec.
Theorem df_add_spec_transfer f g :
  (map q3) (df_add_spec QOps f g)
  = df_add_spec ROps ((map q3) f) ((map q3) g).
Proof. transfer_by df_add_spec_R. Qed.

Parametricity Recursive df_integral_spec.
Theorem df_integral_spec_transfer f iv :
  q2 (df_integral_spec QOps f iv)
  = df_integral_spec ROps ((map q3) f) ((ivmap Q2R) iv).
Proof. transfer_by df_integral_spec_R. Qed.

Parametricity Recursive reconcile_spec.
Theorem reconcile_spec_transfer eps l :
  (map qTrain) (reconcile_spec QOps eps l)
  = reconcile_spec ROps (Q2R eps) ((map qTrain) l).
Proof. transfer_by reconcile_spec_R. Qed.

Parametricity Recursive isi_lengths_spec.
Theorem isi_lengths_spec_transfer s ts te :
  qL (isi_lengths_spec QOps s ts te)
  = isi_lengths_spec ROps (qL s) (Q2R ts) (Q2R te).
Proof. transfer_by isi_lengths_spec_R. Qed.

Parametricity Recursive count_in.
Theorem count_in_transfer lo hi closed xs :
  count_in QOps lo hi closed xs
  = count_in ROps (Q2R lo) (Q2R hi) closed (qL xs).
Proof. transfer_id_by count_in_R. Qed.

(* auxiliary definitions of Spec.v *)

Parametricity Recursive eff.
Theorem eff_transfer ts te s :
  qL (eff ts te s)
  = eff (Q2R ts) (Q2R te) (qL s).
Proof. transfer_by eff_R. Qed.

Parametricity Recursive breaks.
Theorem breaks_transfer ts te s1 s2 :
  qL (breaks QOps ts te s1 s2)
  = breaks ROps (Q2R ts) (Q2R te) (qL s1) (qL s2).
Proof. transfer_by breaks_R. Qed.

Parametricity Recursive mid.
Theorem mid_transfer p :
  Q2R (mid QOps p)
  = mid ROps (q2 p).
Proof. transfer_by mid_R. Qed.

Parametricity Recursive nearest.
Theorem nearest_transfer aux w x :
  Q2R (nearest QOps aux w x)
  = nearest ROps (q2 aux) (qL w) (Q2R x).
Proof. transfer_by nearest_R. Qed.

Parametricity Recursive contrib.
Theorem contrib_transfer ts te u w tm t :
  q2 (contrib QOps ts te u w tm t)
  = contrib ROps (Q2R ts) (Q2R te) (qL u) (qL w) (Q2R tm) (Q2R t).
Proof. transfer_by contrib_R. Qed.

Parametricity Recursive spike_at.
Theorem spike_at_transfer ts te m ri u1 u2 tm t :
  Q2R (spike_at QOps ts te m ri u1 u2 tm t)
  = spike_at ROps (Q2R ts) (Q2R te) (Q2R m) ri (qL u1) (qL u2) (Q2R tm) (Q2R t).
Proof. transfer_by spike_at_R. Qed.

Parametricity Recursive tau_spec.
Theorem tau_spec_transfer lim mrts c1 c2 :
  Q2R (tau_spec QOps lim mrts c1 c2)
  = tau_spec ROps (Q2R lim) (Q2R mrts) ((ctxmap Q2R) c1) ((ctxmap Q2R) c2).
Proof. transfer_by tau_spec_R. Qed.

Parametricity Recursive coinc.
Theorem coinc_transfer lim mrts c1 c2 :
  coinc QOps lim mrts c1 c2
  = coinc ROps (Q2R lim) (Q2R mrts) ((ctxmap Q2R) c1) ((ctxmap Q2R) c2).
Proof. transfer_id_by coinc_R. Qed.

Parametricity Recursive pwc_at.
Theorem pwc_at_transfer xs ys tm :
  (option_map Q2R) (pwc_at QOps xs ys tm)
  = pwc_at ROps (qL xs) (qL ys) (Q2R tm).
Proof. transfer_by pwc_at_R. Qed.

(* [pairs_of], [check_indices], [indices_or_all] contain no numbers: they are
   not polymorphic, both instances run literally the same function. *)

(* the [res]-valued transfers in "match" form, e.g. *)
Corollary pwc_add_transfer_match f g :
  match pwc_add QOps f g, pwc_add ROps (qLL f) (qLL g) with
  | Ok a, Ok b => qLL a = b
  | Err e, Err e' => e = e'
  | _, _ => False
  end.
Proof. apply rmap_match, pwc_add_transfer. Qed.

(* ------------------------------------------------------------------ *)
(* 4. Assumptions                                                       *)

Print Assumptions QR_ops.
Print Assumptions isi_profile_py_transfer.
Print Assumptions spike_profile_py_transfer.
Print Assumptions sync_kernel_transfer.
Print Assumptions isi_profile_multi_transfer.
