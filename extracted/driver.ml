(* driver.ml — reads one case per line:  <id> <val> <val> ...   and prints the
   result of the extracted [dispatch_all] as one line.
   val ::= n | n/d | T | F | N | #k | ( val* )           output adds  !Err  *)
module M = Model

let rec pos_of_z (n : Z.t) : M.positive =
  if Z.equal n Z.one then M.XH
  else if Z.is_even n then M.XO (pos_of_z (Z.shift_right n 1))
  else M.XI (pos_of_z (Z.shift_right n 1))
let cz_of_z (n : Z.t) : M.z =
  if Z.equal n Z.zero then M.Z0
  else if Z.gt n Z.zero then M.Zpos (pos_of_z n) else M.Zneg (pos_of_z (Z.neg n))
let rec z_of_pos (p : M.positive) : Z.t = match p with
  | M.XH -> Z.one
  | M.XO q -> Z.shift_left (z_of_pos q) 1
  | M.XI q -> Z.succ (Z.shift_left (z_of_pos q) 1)
let z_of_cz (n : M.z) : Z.t = match n with
  | M.Z0 -> Z.zero | M.Zpos p -> z_of_pos p | M.Zneg p -> Z.neg (z_of_pos p)
let rec nat_of_int (n : int) : M.nat = if n <= 0 then M.O else M.S (nat_of_int (n - 1))
let rec int_of_nat (n : M.nat) : int = match n with M.O -> 0 | M.S k -> 1 + int_of_nat k

let parse_num (s : string) : M.val0 =
  match String.index_opt s '/' with
  | None -> M.VQ { M.qnum = cz_of_z (Z.of_string s); M.qden = M.XH }
  | Some i ->
    let n = Z.of_string (String.sub s 0 i) in
    let d = Z.of_string (String.sub s (i + 1) (String.length s - i - 1)) in
    M.VQ { M.qnum = cz_of_z n; M.qden = pos_of_z d }

let rec parse (toks : string list) : M.val0 * string list =
  match toks with
  | [] -> failwith "eof"
  | "(" :: r ->
    let rec items acc r = (match r with
      | ")" :: r' -> (M.VL (List.rev acc), r')
      | _ -> let (v, r') = parse r in items (v :: acc) r') in
    items [] r
  | "T" :: r -> (M.VB true, r)
  | "F" :: r -> (M.VB false, r)
  | "N" :: r -> (M.VNone, r)
  | t :: r when String.length t > 0 && t.[0] = '#' ->
    (M.VN (nat_of_int (int_of_string (String.sub t 1 (String.length t - 1)))), r)
  | t :: r -> (parse_num t, r)

let err_name (e : M.err) = match e with
  | M.AssertionError -> "AssertionError" | M.IndexError -> "IndexError"
  | M.ValueError -> "ValueError" | M.NotImplementedError -> "NotImplementedError"
  | M.ZeroDivisionError -> "ZeroDivisionError" | M.OutOfFuel -> "OutOfFuel"
  | M.BadArgs -> "BadArgs"

let rec print (b : Buffer.t) (v : M.val0) : unit = match v with
  | M.VQ q ->
    let n = z_of_cz q.M.qnum and d = z_of_pos q.M.qden in
    let g = Z.gcd n d in
    let g = if Z.equal g Z.zero then Z.one else g in
    let n = Z.div n g and d = Z.div d g in
    Buffer.add_string b (Z.to_string n);
    if not (Z.equal d Z.one) then (Buffer.add_char b '/'; Buffer.add_string b (Z.to_string d))
  | M.VN n -> Buffer.add_char b '#'; Buffer.add_string b (string_of_int (int_of_nat n))
  | M.VB true -> Buffer.add_char b 'T'
  | M.VB false -> Buffer.add_char b 'F'
  | M.VNone -> Buffer.add_char b 'N'
  | M.VE e -> Buffer.add_char b '!'; Buffer.add_string b (err_name e)
  | M.VL l ->
    Buffer.add_char b '(';
    List.iteri (fun i x -> if i > 0 then Buffer.add_char b ' '; print b x) l;
    Buffer.add_char b ')'

let () =
  let b = Buffer.create 4096 in
  (try
     while true do
       let line = input_line stdin in
       let toks = List.filter (fun s -> s <> "") (String.split_on_char ' ' line) in
       (match toks with
        | [] -> print_newline ()
        | id :: rest ->
          Buffer.clear b;
          (try
             let rec all acc r = (match r with [] -> List.rev acc
               | _ -> let (v, r') = parse r in all (v :: acc) r') in
             let args = all [] rest in
             print b (M.dispatch_all (nat_of_int (int_of_string id)) args)
           with e -> Buffer.clear b; Buffer.add_string b ("!Driver:" ^ Printexc.to_string e));
          print_string (Buffer.contents b); print_newline ())
     done
   with End_of_file -> ());
  flush stdout
