#!/bin/bash
# build.sh - (re)build the Coq development, the extracted model and the OCaml
# driver from the files on disk.  Idempotent; serialised with flock so that
# concurrent checks do not race.  Used by setup.sh and by every check.
set -u
cd "$(dirname "$0")"
VERIF=$(pwd)
exec 9>"$VERIF/.build.lock"
flock 9
J=${VERIF_JOBS:-$(nproc)}
cd "$VERIF/coq" || exit 2
if [ ! -f Makefile ] || [ _CoqProject -nt Makefile ]; then
  coq_makefile -f _CoqProject -o Makefile >/dev/null || exit 2
fi
# full .vo build (never -vos/-vok)
if ! timeout 3000 make -j"$J" >"$VERIF/.build.log" 2>&1; then
  echo "BUILD-FAILED: coq (see $VERIF/.build.log)"; tail -30 "$VERIF/.build.log"; exit 3
fi
cd "$VERIF/extracted" || exit 2
need=0
[ -x modelrun ] || need=1
[ model.ml -nt modelrun ] && need=1
[ "$VERIF/coq/Extract.vo" -nt modelrun ] && need=1
[ driver.ml -nt modelrun ] && need=1
if [ "$need" = 1 ]; then
  # extraction: re-run Extract.v so that model.ml is written here
  (cd "$VERIF/extracted" && timeout 600 coqc -Q ../coq PS ../coq/Extract.v >/dev/null 2>"$VERIF/.extract.log") || { echo "BUILD-FAILED: extraction"; cat "$VERIF/.extract.log"; exit 3; }
  rm -f "$VERIF"/coq/Extract.glob
  timeout 600 ocamlfind ocamlopt -package zarith -linkpkg -w -a -O2 model.mli model.ml driver.ml -o modelrun 2>"$VERIF/.ocaml.log" \
   || timeout 600 ocamlfind ocamlopt -package zarith -linkpkg -w -a model.mli model.ml driver.ml -o modelrun 2>"$VERIF/.ocaml.log" \
   || { echo "BUILD-FAILED: ocaml"; cat "$VERIF/.ocaml.log"; exit 3; }
fi
exit 0
