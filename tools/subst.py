"""subst.py FILE  — reads pairs of (old,new) blocks from a python file given as
second arg (variable EDITS = [(old,new),...]) and applies them preserving the
file's line terminators."""
import sys, runpy
path, edits_file = sys.argv[1], sys.argv[2]
edits = runpy.run_path(edits_file)["EDITS"]
raw = open(path, newline='').read()
crlf = '\r\n' in raw
s = raw.replace('\r\n', '\n')
for old, new in edits:
    assert s.count(old) == 1, (s.count(old), old[:60])
    s = s.replace(old, new)
if crlf:
    s = s.replace('\n', '\r\n')
open(path, 'w', newline='').write(s)
