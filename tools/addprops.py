#!/usr/bin/env python3
"""addprops.py PROPS_FILE LEM_FILE PREFIX name[=newname] ... - development aid: copy the statements of the named
theorems of a lemma file into a Props file as `Theorem PREFIX_name : <statement>. Proof. exact name. Qed.
Print Assumptions PREFIX_name.`, inserted before the non-vacuity Example (statements stay visible in the Props file;
the kernel checks that the lemma proves exactly that statement)."""
import re, sys
props, lem, prefix = sys.argv[1:4]
src = open(lem).read()
out = []
for spec in sys.argv[4:]:
    name, _, new = spec.partition("=")
    new = new or name
    m = re.search(r"^(?:Theorem|Lemma)\s+%s\s*:(.*?)\nProof\." % re.escape(name), src, re.S | re.M)
    if not m:
        sys.exit("statement of %s not found (binder-style statement?)" % name)
    out.append("Theorem %s_%s :%s\nProof. exact %s. Qed.\nPrint Assumptions %s_%s.\n" % (prefix, new, m.group(1).rstrip(), name, prefix, new))
s = open(props).read()
m = re.search(r"^Example %s_nonvacuous" % prefix, s, re.M)
if not m:
    sys.exit("no anchor in " + props)
hdr = "(* ---- from %s ---- *)\n" % lem.split("/")[-1]
s = s[:m.start()] + hdr + "".join(out) + "\n" + s[m.start():]
open(props, "w").write(s)
print("added", len(out), "theorems to", props)
