"""mkmanifest.py - regenerate MANIFEST.json: a property is claimed iff coq/Props/<id>.v exists;
level text comes from harness/props_meta.py."""
import json, os, sys
V = os.path.dirname(os.path.dirname(os.path.abspath(__file__)))
sys.path.insert(0, os.path.join(V, "harness"))
import props_meta
props = [json.loads(l) for l in open(os.path.join(V, "properties.jsonl"))]
ids = [p["id"] for p in props]
checks, na = [], []
for p in props:
    pid = p["id"]
    meta = props_meta.META.get(pid, {})
    if os.path.exists(os.path.join(V, "coq", "Props", pid + ".v")) and not meta.get("not_applicable"):
        checks.append({
            "property_id": pid,
            "quick_cmd": "./check %s --tier quick" % pid,
            "thorough_cmd": "./check %s --tier thorough" % pid,
            "evidence_file": "evidence/%s.json" % pid,
            "replay_cmd_template": "./check %s --replay {path}" % pid,
            "engine": "coq-model",
            "level_claimed": {"category": "proof",
                              "text": meta.get("level_text") or ("Theorems in coq/Props/%s.v (Coq 8.16.1, R instance of the model) - %s"
                                                                   % (pid, meta.get("proved", ""))),
                              "design_ref": "DESIGN.md section 6 (%s) and section 11" % pid},
            "level_note": meta.get("level_note") or ("Proved: %s  Tested only (oracle / correspondence, not theorems): %s  Trusted base: Coq kernel; stdlib real-number axioms (sig_forall_dec, functional_extensionality_dep) as printed by Print Assumptions; hand-written model tied to /repo by the correspondence run of the extracted model (ExtrOcamlBasic) against the Python fall-back and the de-cythonised .pyx on every check; floats compared with tolerance 1e-9 on dyadic inputs."
                                                     % (meta.get("proved", ""), meta.get("tested_only", "") or "-")),
            "technique": "machine-checked proof in Coq (induction/refinement to an executable spec) + model/implementation correspondence check",
        })
    else:
        na.append({"property_id": pid, "reason": meta.get("na_reason") or
                   "check under construction: model, specification and oracle exist, the theorem file coq/Props/%s.v is not finished yet" % pid})
m = {"version": 1, "setup_cmd": "./setup.sh",
     "hooks": {"guard": "PYSPIKE_VERIF",
               "enable": "none needed: the checks import pyspike from /repo's working tree as it is (PYTHONPATH=/repo) and execute the .pyx sources through harness/backend.py; there are no source hooks in /repo",
               "baseline_off_cmd": "cd /repo && /venv/bin/python -m pytest -ra -q -p no:cacheprovider --timeout=900 --continue-on-collection-errors",
               "source_commits": [], "add_only": True},
     "engines": [{"name": "coq-model", "path": "coq/", "serves_properties": ids,
                  "kind_free_text": "Coq 8.16.1 development: code-shaped Gallina model of PySpike (polymorphic over the number type), executable specifications, lemma files Lem_*.v, one theorem file per property in coq/Props/"},
                 {"name": "correspondence-harness", "path": "harness/", "serves_properties": ids,
                  "kind_free_text": "differential run of the extracted model/specifications (OCaml) against the implementation imported from /repo (Python fall-back and de-cythonised .pyx), property oracles, known-findings classification, replay"}],
     "checks": checks,
     "notes": "see DESIGN.md; ./check <id> [--tier quick|thorough] [--replay file]; known findings in KNOWN_FINDINGS.txt",
     "not_applicable": na}
json.dump(m, open(os.path.join(V, "MANIFEST.json"), "w"), indent=1)
print("claimed:", [c["property_id"] for c in checks])
