#!/usr/bin/env python3
"""mutsweep.py REPO OUT.jsonl [N] [SEED]  - mutation sweep used to look for blind spots of the checks.

Generates single-token mutants of the library sources in REPO (a scratch copy / snapshot, never
/repo itself), and for each one: (1) byte-compiles the file, (2) runs the repository test-suite
(mutants it kills are not interesting), (3) runs the quick checks mapped to the mutated function
until one reports a VIOLATION.  One JSON line per mutant: killed_by = 'syntax' | 'suite' | 'Cxx' |
None (survived: either an equivalent mutant or a blind spot - to be inspected by hand).

This is a development aid (it validates the checks, it decides nothing about /repo)."""
import ast, json, os, random, re, subprocess, sys, time

REPO = sys.argv[1]
OUT = sys.argv[2]
N = int(sys.argv[3]) if len(sys.argv) > 3 else 100
SEED = int(sys.argv[4]) if len(sys.argv) > 4 else 1
VERIF = os.path.dirname(os.path.dirname(os.path.abspath(__file__)))
assert os.path.realpath(REPO) != "/repo", "never mutate /repo itself"

# function (or file) -> checks that should notice a semantic change there
FUNC_CHECKS = {
    "pyspike/cython/python_backend.py": {
        "isi_distance_python": ["C01"], "get_min_dist": ["C02"], "dist_at_t": ["C02"],
        "spike_distance_python": ["C02"], "get_tau": ["C03", "C16"], "Interpolate": ["C03"],
        "coincidence_python": ["C03"], "coincidence_single_python": ["C17", "C03"],
        "add_piece_wise_const_python": ["C09", "C06"], "add_piece_wise_lin_python": ["C09"],
        "add_discrete_function_python": ["C11", "C06"]},
    "pyspike/cython/directionality_python_backend.py": {None: ["C04"]},
    "pyspike/cython/cython_profiles.pyx": {None: ["C12"]},
    "pyspike/cython/cython_distances.pyx": {None: ["C12"]},
    "pyspike/cython/cython_add.pyx": {None: ["C12"]},
    "pyspike/cython/cython_get_tau.pyx": {None: ["C12"]},
    "pyspike/cython/cython_directionality.pyx": {None: ["C12"]},
    "pyspike/generic.py": {None: ["C06", "C14", "C05", "C15", "C13"]},
    "pyspike/isi_distance.py": {None: ["C05", "C14", "C01", "C13"]},
    "pyspike/spike_distance.py": {None: ["C05", "C14", "C02", "C13"]},
    "pyspike/spike_sync.py": {"filter_by_spike_sync": ["C17"], None: ["C05", "C06", "C14", "C16", "C13"]},
    "pyspike/spike_directionality.py": {None: ["C04", "C14", "C18", "C16", "C13"]},
    "pyspike/DiscreteFunc.py": {None: ["C11", "C05"]},
    "pyspike/PieceWiseConstFunc.py": {None: ["C10", "C09"]},
    "pyspike/PieceWiseLinFunc.py": {None: ["C10", "C09"]},
    "pyspike/spikes.py": {"reconcile_spike_trains": ["C13"], "reconcile_spike_trains_bi": ["C13"],
                          "merge_spike_trains": ["C20"], "generate_poisson_spikes": ["C20"], None: ["C19"]},
    "pyspike/isi_lengths.py": {None: ["C15"]},
    "pyspike/psth.py": {None: ["C20"]},
    "pyspike/SpikeTrain.py": {None: ["C19", "C13", "C01", "C17"]},
}

OPS = [
    (r"(?<![<>=!])<(?![=<])", "<="), (r"<=", "<"), (r"(?<![<>=!-])>(?![=>])", ">="), (r">=", ">"),
    (r"==", "!="), (r"!=", "=="), (r"\band\b", "or"), (r"\bor\b", "and"),
    (r"\+\s*1\b", "+ 2"), (r"-\s*1\b", "- 2"), (r"\+\s*1\b", "- 1"), (r"(?<=[\w\])])\s\+\s(?=[\w(])", " - "),
    (r"(?<=[\w\])])\s-\s(?=[\w(])", " + "), (r"\bmin\(", "max("), (r"\bmax\(", "min("),
    (r"\bfmin\(", "fmax("), (r"\bfmax\(", "fmin("),
    (r"\bN1\b", "N2"), (r"\bN2\b", "N1"), (r"\bindex1\b", "index2"), (r"\bindex2\b", "index1"),
    (r"\bt_start\b", "t_end"), (r"\bt_end\b", "t_start"), (r"\[0\]", "[1]"), (r"\[-1\]", "[-2]"),
    (r"/\s*2\.", "/4."), (r"\*\s*2\b", "*3"), (r"0\.5", "0.25"), (r"\bTrue\b", "False"), (r"\bFalse\b", "True"),
    (r"\bs1\b", "s2"), (r"\bspikes1\b", "spikes2"), (r"\bi\b(?=\s*[<>+\-\]])", "j"), (r"side='right'", "side='left'"),
    (r"side='left'", "side='right'"), (r"\bisi1\b", "isi2"), (r"\bdt_p1\b", "dt_f1"), (r"\bmax_tau\b", "MRTS"),
]


def code_lines(path):
    """(lineno, text, function) of lines that carry code (no comments / docstrings)"""
    text = open(path, newline="").read()
    lines = text.split("\n")
    funcs = {}
    if path.endswith(".py"):
        try:
            tree = ast.parse(text.replace("\r\n", "\n"))
            doc = set()
            for node in ast.walk(tree):
                if isinstance(node, (ast.FunctionDef, ast.ClassDef, ast.Module)):
                    b = getattr(node, "body", [])
                    if b and isinstance(b[0], ast.Expr) and isinstance(getattr(b[0], "value", None), ast.Constant) \
                            and isinstance(b[0].value.value, str):
                        doc.update(range(b[0].lineno, b[0].end_lineno + 1))
                if isinstance(node, ast.FunctionDef):
                    for ln in range(node.lineno, node.end_lineno + 1):
                        funcs.setdefault(ln, node.name) if False else funcs.__setitem__(ln, funcs.get(ln) or node.name)
        except SyntaxError:
            doc = set()
    else:
        doc = set()
        cur = None
        for i, l in enumerate(lines, 1):
            m = re.match(r"\s*(?:cdef\s+(?:inline\s+)?[\w\[\]:, ]+\s+|def\s+)(\w+)\s*\(", l)
            if m:
                cur = m.group(1)
            funcs[i] = cur
    out = []
    instr = False
    for i, l in enumerate(lines, 1):
        s = l.strip()
        if i in doc or not s or s.startswith("#"):
            continue
        if s.count('"""') % 2 == 1:
            instr = not instr
            continue
        if instr or s.startswith("import ") or s.startswith("from ") or s.startswith("cimport") or s.startswith("print"):
            continue
        out.append((i, l, funcs.get(i)))
    return out


def mutants(rng):
    pool = []
    only = os.environ.get("SWEEP_FILES")          # optional regex on the relative path
    for rel in FUNC_CHECKS:
        if only and not re.search(only, rel):
            continue
        path = os.path.join(REPO, rel)
        for ln, text, fn in code_lines(path):
            code = text.split("#")[0]
            for k, (pat, rep) in enumerate(OPS):
                for m in re.finditer(pat, code):
                    pool.append((rel, ln, fn, k, m.start(), m.end(), rep))
    rng.shuffle(pool)
    return pool


def sh(cmd, cwd=None, env=None, timeout=1800):
    p = subprocess.run(cmd, shell=True, cwd=cwd, env=env, stdout=subprocess.PIPE, stderr=subprocess.STDOUT, timeout=timeout)
    return p.returncode, p.stdout.decode(errors="replace")


def main():
    rng = random.Random(SEED)
    pool = mutants(rng)
    print("mutant pool:", len(pool), flush=True)
    env = dict(os.environ, PYTHONPATH=REPO, PYSPIKE_REPO=REPO, PYTHONWARNINGS="ignore", PYTHONDONTWRITEBYTECODE="1")
    done = 0
    seen_lines = {}
    with open(OUT, "a") as out:
        for rel, ln, fn, k, a, b, rep in pool:
            if done >= N:
                break
            if seen_lines.get((rel, ln), 0) >= 2:          # spread over the code
                continue
            seen_lines[(rel, ln)] = seen_lines.get((rel, ln), 0) + 1
            path = os.path.join(REPO, rel)
            raw = open(path, newline="").read()
            lines = raw.split("\n")
            orig = lines[ln - 1]
            lines[ln - 1] = orig[:a] + rep + orig[b:]
            if lines[ln - 1] == orig:
                continue
            rec = {"file": rel, "line": ln, "func": fn, "orig": orig.strip(), "mutant": lines[ln - 1].strip(), "killed_by": None}
            open(path, "w", newline="").write("\n".join(lines))
            try:
                t0 = time.time()
                if rel.endswith(".py"):
                    rc, o = sh("/venv/bin/python -m py_compile %s" % path)
                    if rc != 0:
                        rec["killed_by"] = "syntax"
                if rec["killed_by"] is None:
                    rc, o = sh("/venv/bin/python -m pytest -x -q -p no:cacheprovider --timeout=300 test "
                               "--deselect test/numeric/test_regression_random_spikes.py::test_regression_random 2>&1 | tail -3",
                               cwd=REPO, env=env)
                    if " failed" in o or "error" in o.lower():
                        rec["killed_by"] = "suite"
                if rec["killed_by"] is None:
                    cm = FUNC_CHECKS[rel]
                    checks = cm.get(fn) or cm.get(None) or []
                    for c in checks:
                        rc, o = sh("./check %s --tier quick" % c, cwd=VERIF, env=env, timeout=3600)
                        if rc != 0:
                            rec["killed_by"] = c
                            rec["line_out"] = [l for l in o.split("\n") if l.startswith("VIOLATION")][:1]
                            break
                    rec["checks_run"] = checks
                rec["wall_s"] = round(time.time() - t0, 1)
            finally:
                open(path, "w", newline="").write(raw)
            out.write(json.dumps(rec) + "\n")
            out.flush()
            done += 1
            print(done, rec["file"], rec["line"], rec["func"], "->", rec["killed_by"], flush=True)


if __name__ == "__main__":
    main()
