"""seednotes.py - add the human-written fields (what the change breaks, what it needs in order to
manifest) to seeded/<id>/meta.json and print the table used in DESIGN.md section 11.6."""
import json, os
V = os.path.dirname(os.path.dirname(os.path.abspath(__file__)))
N = {
 "C01-1": ("isi_distance_python tie branch: end-edge guard of train 2 tests N1 instead of N2", "a shared spike that is the last spike of a multi-spike second train while the first train has exactly one spike, and train 2's previous interval is longer than the rest of the recording"),
 "C01-2": ("isi_distance_python start edge of train 2: t_end-s1[0] instead of t_end-s2[0]", "second train = exactly one spike exactly on t_start, first train's first spike later"),
 "C02-1": ("spike_distance_python: dropped `or index1 == N1-1` guard in the train-2 branch", "train 1 exhausted with auxiliary spike == t_end while train 2 still has a spike exactly on t_end (or is empty)"),
 "C02-2": ("spike_distance_python simultaneous-spike branch uses train 2's own auxiliary spikes for its nearest-spike search", "an exact tie between the trains, train 2's next spike after train 1's last spike, different closing auxiliary spikes"),
 "C03-1": ("get_tau else-branch: window capped by max_tau instead of max_tau/2", "max_tau > 0, train-2 spike leading, distance between max_tau and 2*max_tau, interior spikes with long neighbouring intervals"),
 "C03-2": ("coincidence_single_python: second get_tau call after j += 1 removed (stale window)", "a train-1 spike between two train-2 spikes with unequal neighbouring intervals"),
 "C04-1": ("spike_train_order_multi pairs oriented by index value instead of position", "non-ascending `indices`"),
 "C04-2": ("spike_directionality_profile_python: `<=` instead of `<` in one branch", "exact tie distance == tau with the later spike in the second argument"),
 "C05-1": ("_generic_distance_multi: resolved 'auto' threshold kept in a stale local, pairs resolve 'auto' themselves", "MRTS='auto', three or more trains with different rates"),
 "C05-2": ("spike_train_order_multi pairs oriented by index value (scalar route only)", "non-ascending `indices`"),
 "C06-1": ("add_piece_wise_const_python second tail-copy branch tests the wrong cursor", "one add of the divide-and-conquer tree where the left operand runs out of breakpoints first while having at least as many intervals"),
 "C06-2": ("_generic_distance_matrix row train looked up by position instead of selected index", "a matrix function with `indices` that is not a leading block"),
 "C09-1": ("add_piece_wise_const_python first tail copy starts one slot early", "loop ends in the `>` branch and the receiver still has breakpoints left"),
 "C09-2": ("PieceWiseLinFunc constructor np.asarray instead of np.array (no copy)", "copy() followed by mul_scalar before the next add; or y1 is y2"),
 "C10-1": ("PieceWiseLinFunc.integral general branch: dropped slice on y2", "at least two complete pieces strictly inside [a,b] with different right-hand values"),
 "C10-2": ("PieceWiseConstFunc: memoised full-support integral not invalidated by mul_scalar", "integral()/avrg() then mul_scalar then another no-interval query on the same object"),
 "C11-1": ("DiscreteFunc.integral start index: side='right' dropped", "an interval start that coincides with an event time"),
 "C11-2": ("get_plottable_data left smoothing loop divides by mp[i] instead of mp[j]", "smoothing window > 0 and a left neighbour with a different multiplicity"),
 "C12-1": ("python_backend.get_tau else-branch loses the max_tau/2 cap (the .pyx keeps it)", "max_tau > 0, first train's spike later, distance between max_tau and the neighbouring half-intervals"),
 "C12-2": ("cython_distances.pyx spike_distance_cython: end-edge guard N1 > 1 instead of N2 > 1 (only the .pyx)", "first train one spike, second >= 2, last ISI of train 2 longer than the rest, no tie"),
 "C13-1": ("_generic_distance_matrix resolves MRTS='auto' before reconciling", "MRTS='auto', a matrix entry point, un-normalised input"),
 "C13-2": ("merge_spike_trains accumulates with np.append then sorts in place", "a one-element list whose train is unsorted: the caller's array is sorted in place"),
 "C14-1": ("_generic_profile_multi single-pair shortcut uses trains 0 and 1", "`indices` selecting exactly two trains other than [0,1], profile functions only"),
 "C14-2": ("spike_train_order_multi pairs oriented by index value", "non-increasing `indices`, scalar order only"),
 "C15-1": ("spike_train_order_multi forwards **kwargs (the string 'auto') to the pair routine", "MRTS='auto', >= 3 trains whose pair thresholds differ enough to flip a coincidence"),
 "C15-2": ("isi_lengths end-edge guard `<=` instead of `<`", "a spike exactly on t_end (last interval pooled twice / spurious 0-length interval)"),
 "C16-1": ("spike_train_order_profile_python: `<=` instead of `<` in one branch", "two spikes exactly max_tau apart, neighbours >= 2*max_tau away, later spike in the first argument"),
 "C16-2": ("coincidence_python: `if 0 < max_tau < true_max: true_max = 2*max_tau`", "max_tau between T/2 and T, spikes more than T/2 apart whose window comes from missing neighbours: enlarging max_tau removes a coincidence"),
 "C17-1": ("coincidence_single_python: window no longer capped by the recording length", "max_tau above half the recording and single-spike trains"),
 "C17-2": ("filter_by_spike_sync removed side `<` instead of `<=`", "return_removed_spikes=True and a count exactly equal to thr*(N-1)"),
 "C18-1": ("isi_distance_python: one-spike-on-t_start fallback s[0]-t_start (both trains)", ">= 2 trains whose only spike is on t_start, MRTS = 0: 0/0"),
 "C18-2": ("isi_lengths returns [] for an empty train", "all trains empty and MRTS='auto': NaN threshold reaches the SPIKE kernel"),
 "C19-1": ("load_spike_trains_from_txt: flattened guard turns comment lines into empty trains", "a comment line in the file and ignore_empty_lines=False"),
 "C19-2": ("save_spike_trains_to_txt writes '\\n'.join(lines) (no trailing newline)", "an empty train at the end of the list"),
 "C20-1": ("psth bin edges t_start + bin_size*arange instead of linspace", "a bin size that does not divide the recording and a spike in the uncovered tail"),
 "C20-2": ("merge_spike_trains uses get_spikes_non_empty()", "an empty train in the list (two phantom edge spikes)"),
 "C07-1": ("spike_distance_python: end-edge guard of isi2 tests N1 > 1 instead of N2 > 1", "first argument one spike, second >= 2, non-tie last step, long last ISI: profile value 2.33 > 1 and asymmetric"),
 "C07-2": ("get_tau: max_tau/2 cap dropped from one branch only", "max_tau given, interior spikes, neighbouring intervals > 2*max_tau: SPIKE-Sync depends on argument order"),
 "C08-1": ("isi_distance_python tie branch: end-edge guard of train 2 tests N1", "train 1 one spike coinciding with the last spike of train 2 (>= 2 spikes), long last ISI: mirror image differs"),
 "C08-2": ("spike_train_order_profile_python: `<=` in the train-2 branch only", "exact tie with tau on a regular grid: reversal no longer negates"),
 "C01-3": ("isi_distance_python trailing trim tests only train 1's last spike", "only train 2 ends on t_end, or train 2 empty and train 1 not ending on t_end: duplicate t_end breakpoint"),
 "C01-4": ("isi_profile_bi: kwargs replaced by {'Reconcile': False} inside the reconcile block (MRTS dropped)", "direct two-train isi_profile call with default Reconcile and MRTS above some max(v1,v2)"),
 "C02-3": ("get_min_dist: `>=` instead of `>` in the early exit", "other train a lone spike exactly on t_start (coincides with its own auxiliary spike) and a partner spike nearer t_end"),
 "C02-4": ("resolve_keywords: RI looked up only when MRTS is given", "RI=True without an MRTS keyword"),
 "C03-3": ("coincidence_single_python: `<=` instead of `<` for the following partner only", "exact distance == window tie with the partner being the later spike, seen through the filter"),
 "C03-4": ("coincidence_python: window no longer capped by the recording length (profile routine only)", "max_tau above half the recording and a pair whose window is not bounded by a real ISI"),
 "C05-3": ("spike_distance_bi interval branch requests the profile without **kwargs (RI dropped)", "RI=True together with an explicit interval"),
 "C05-4": ("spike_sync_multi: coincidence/max(mp, 1.0) instead of the mp == 0 -> 1.0 convention", "multivariate route and an interval in which no selected train fires"),
 "C06-3": ("_generic_profile_multi single-pair branch drops **kwargs", "exactly two trains through the multi interface with MRTS or RI"),
 "C06-4": ("spike_sync_multi 0/0 guard tests the coincidence sum instead of the multiplicity sum", "spikes present but no coincidence at all in the evaluated range"),
 "C09-3": ("add_piece_wise_lin_python: x_new allocated with the receiver's dtype", "integer-typed receiver breakpoints and an operand with non-integer breakpoints"),
 "C09-4": ("PieceWiseConstFunc.add fast path for a zero single-piece receiver shares the operand's arrays", "zero accumulator, one add, then an in-place mul_scalar"),
 "C11-3": ("add_discrete_function_python merge loop condition reads the second operand's last x instead of its index bound", "operand 2 has an event on t_end, operand 1 none there and still unconsumed events"),
 "C11-4": ("DiscreteFunc.integral(None) routed through the open-interval index selection", "an event exactly on t_start / t_end with interval=None"),
 "C13-3": ("reconcile_spike_trains fast path for equal edges + sorted input skips the out-of-interval filter", "equal edges, already sorted, one spike more than 1e-6 outside the edges"),
 "C13-4": ("spike_directionality: spike count taken before reconciliation", "normalize=True and a repeated / out-of-interval spike in the first train"),
 "C14-3": ("_spike_directionality_values_impl normalises by len(spike_trains)-1 instead of len(indices)-1", "an `indices` selection smaller than the list"),
 "C14-4": ("spike_directionality_matrix: `RI, MRTS = resolve_keywords(...)` swapped", "matrix form with a non-default MRTS that widens a coincidence window"),
 "C15-3": ("default_thresh skips trains without spikes", "an empty train in the list / pair with MRTS='auto'"),
 "C15-4": ("_generic_distance_matrix resolves 'auto' from the selected trains only", "REJECTED as a seed: under C14 (index selection == sub-list) this is the correct behaviour for the matrix form - it partially repairs known finding F10; its demonstration asserts the whole-list threshold, i.e. F10's behaviour"),
 "C17-3": ("coincidence_single_python second-check guard `j < 1` instead of `j < 0`", "a train with two spikes before another train's first spike and then a spike coincident with that first spike"),
 "C17-4": ("filter_by_spike_sync builds the removed trains with a scalar edge", "return_removed_spikes=True and a recording that does not start at 0"),
 "C18-3": ("spike_directionality: zero-spike guard moved into the compiled-kernel try block", "Python fall-back, normalize=True, empty train first: NaN"),
 "C18-4": ("_spike_directionality_values_impl result buffers sized by position instead of selected train", "a non-prefix `indices` selection with trains of different spike counts"),
 "C04-3": ("_spike_directionality_values_impl divides by len(spike_trains)-1 instead of len(indices)-1", "spike_directionality_values with a proper-subset `indices`"),
 "C04-4": ("spike_train_order_profile_python: window bound 2*max_tau without the recording-length clamp", "max_tau above half the recording, isolated spikes at least T/2 apart"),
 "C08-3": ("get_tau: max_tau cap kept in only one of the two return sites", "max_tau given, interior spikes with long ISIs, train-2 spike leading: reflected recording differs"),
 "C08-4": ("spike_distance_python: start-edge ISI of a one-spike first train measured from 0 instead of t_start", "first train one spike not on t_start and t_start != 0: result depends on the position on the time axis"),
 "C10-3": ("PieceWiseConstFunc.__call__ scalar path: breakpoint test with np.isclose", "a single time within isclose tolerance of a breakpoint but not on it"),
 "C10-4": ("PieceWiseLinFunc.avrg list of intervals: divides by the span instead of the summed lengths", "a list of non-contiguous or unordered intervals (piecewise-linear only)"),
 "C16-3": ("get_tau: the max_tau/2 cap moved into Interpolate's `mab`", "MRTS/4 > max_tau with real neighbours whose half-ISIs exceed max_tau"),
 "C16-4": ("_spike_sync_values interval branch does not forward max_tau", "`interval=` and `max_tau=` both given"),
 "C19-3": ("SpikeTrain constructor is_sorted=False branch uses np.unique instead of np.sort", "two spike times that are equal (or become equal at the saved precision) within one line"),
 "C19-4": ("import_spike_trains_from_time_series: (start + k+1)*bin instead of start + (k+1)*bin", "start_time != 0 together with time_bin != 1"),
 "C20-3": ("psth pools the trains with np.union1d", "two trains sharing an identical spike time"),
 "C20-4": ("generate_poisson_spikes: T_start no longer added to the cumulative sums", "an interval starting above 0"),
 "C07-3": ("coincidence_python: the multiplicity of the t_end edge entry is no longer copied from its neighbour", "the last spikes of the two trains coincide exactly: edge entry with value 2 and multiplicity 1"),
 "C07-4": ("spike_distance_python tie branch: nearest-spike search of train 1 starts one spike too late", "an exact tie, train 1 fires again, and the nearest train-2 spike to that next spike is the shared spike"),
 "C12-3": ("directionality_python_backend order profile: empty-train special case fires when only one train is empty (fall-back only)", "exactly one empty train"),
 "C12-4": ("cython_profiles.pyx dist_at_t RI branch divides by meanISI instead of the floored mean (only this .pyx copy)", "RI=True with an MRTS larger than a local mean ISI"),
}
rows = []
for key, (what, needs) in sorted(N.items()):
    p = os.path.join(V, "seeded", key, "meta.json")
    if not os.path.exists(p):
        rows.append((key, what, needs, "not run", "")); continue
    m = json.load(open(p))
    m["change"] = what
    m["needs_to_manifest"] = needs
    json.dump(m, open(p, "w"), indent=1)
    lines = m["checks"].get(m["property"], {}).get("lines", [])
    kind = "no-failing-input-found" if lines and all("no-failing-input-found" in l for l in lines if l.startswith("VIOLATION")) else "failing input"
    rows.append((key, what, needs, "yes" if m.get("confirmed") else "NO", ", ".join(m.get("caught_by", [])) + (" (%s)" % kind if m.get("caught_by") else "")))
print("| seeded change | what was changed | needs, in order to manifest | confirmed (suite passes, demo fails) | caught by quick check |")
print("|---|---|---|---|---|")
for r in rows:
    print("| %s | %s | %s | %s | %s |" % r)
