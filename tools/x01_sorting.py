#!/usr/bin/env python3
"""x01_sorting.py [N_CASES] [SEED] - correspondence for the part of the model that lies beyond the
twenty listed properties: optimal_spike_train_sorting (simulated annealing, .pyx only) and
permutate_matrix (coq/ModelSort.v, theorems in coq/Props/X01_sorting.v).

The de-cythonised cython_simulated_annealing.pyx is run with a scripted rand() (see ModelSort.v:
a draw of 0 makes the Metropolis comparison accept, any draw >= 1 makes it reject - the draw is
presented to `(1.0*rand())/RAND_MAX` as -1 resp. >= 1 with RAND_MAX = 1, so the outcome does not
depend on exp, not even on its underflow at low temperature) and compared with the extracted
model, routine ids 95 / 96; the theorems' conclusions (permutation, value = upper-triangle sum of
the permuted matrix, iteration bound) are also tested on the implementation's own output.

Not a registered check: nothing here decides one of the listed properties.  Exit 0 = agreement."""
import os, random, sys
from fractions import Fraction as Fr
V = os.path.dirname(os.path.dirname(os.path.abspath(__file__)))
sys.path.insert(0, os.path.join(V, "harness"))
os.environ.setdefault("PYTHONWARNINGS", "ignore")
import warnings
warnings.filterwarnings("ignore")
import numpy as np
import backend, core, adapters
from core import Nat

n_cases = int(sys.argv[1]) if len(sys.argv) > 1 else 150
seed = int(sys.argv[2]) if len(sys.argv) > 2 else int(os.environ.get("VERIF_SEED", "20260927"))
rng = random.Random(seed)
ps, mods = backend.load("cy")
impl = adapters.Impl(ps, mods, "cy")


def rand_matrix(n):
    D = [[Fr(0)] * n for _ in range(n)]
    for i in range(n):
        for j in range(i + 1, n):
            v = Fr(rng.randint(-12, 12), rng.choice([1, 2, 4]))
            D[i][j], D[j][i] = v, -v
    return D


cases = []
for k in range(n_cases):
    n = rng.choice([2, 2, 3, 3, 4, 5])
    D = rand_matrix(n)
    if k % 10 == 0:
        D = [[Fr(0)] * n for _ in range(n)]           # all zero: T_start = 0, loop never entered
    pat = [Nat(rng.choice([0, 0, 1, 2, 3, 5, 7])) for _ in range(rng.randint(1, 9))]
    cases.append((95, [D, pat]))
    p = list(range(n))
    rng.shuffle(p)
    cases.append((96, [D, [Nat(x) for x in p]]))

model = core.run_model(cases)
bad = 0
for (rid, args), m in zip(cases, model):
    got = impl.call(rid, args)
    c = core.canon(got)
    why = core.agree(m, c, 1e-9)
    ok = why is None
    if rid == 95 and ok:
        # the theorems' conclusions on the implementation's own output
        p, A, it = got
        D = np.array(core.fl(args[0]), dtype=float)
        n = len(D)
        Dp = ps.permutate_matrix(D, p)
        if sorted(int(x) for x in p) != list(range(n)):
            ok, why = False, "result is not a permutation"
        elif abs(float(A) - float(np.sum(np.triu(Dp, 0)))) > 1e-9:
            ok, why = False, "reported value is not the upper-triangle sum of the permuted matrix"
        elif it > 110 * 100 * n:
            ok, why = False, "iteration bound exceeded"
    if not ok:
        bad += 1
        if bad <= 5:
            print("MISMATCH routine %d args=%s: model=%s impl=%s (%s)" % (rid, core.fl(args), core.fl(m), c, why))
print("x01_sorting: %d cases (%d annealing runs, %d permutate_matrix), %d mismatches, seed %d"
      % (len(cases), len(cases) // 2, len(cases) // 2, bad, seed))
sys.exit(1 if bad else 0)
