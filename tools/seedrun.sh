#!/bin/bash
# seedrun.sh SEED-ID CHECK...  - apply /verif/seeded/SEED-ID/patch.diff to the scratch worktree /tmp/wt_<prop>
# (never /repo), run the given quick checks against it, undo.  Development aid.
sid=$1; shift
prop=${sid%%-*}
wt=/tmp/wt_$prop
[ -d $wt ] || git -C /repo worktree add --detach $wt HEAD >/dev/null 2>&1
git -C $wt checkout -- . ; git -C $wt apply /verif/seeded/$sid/patch.diff || exit 2
for c in "$@"; do
  out=$(cd /verif && PYSPIKE_REPO=$wt PYTHONPATH=$wt ./check $c 2>&1 | grep -v "^WARNING")
  echo "$sid $c: $(echo "$out" | grep -c '^VIOLATION') violation line(s); $(echo "$out" | grep '^VIOLATION' | head -1)"
  echo "$out" | grep -v "^VIOLATION" | tail -1
done
git -C $wt checkout -- .
