#!/usr/bin/env python3
"""seedtest.py PID MUTDIR N [--also C05,C12]  - confirm a seeded change and run the checks against it.
Applies MUTDIR/patchN.diff to /repo, runs the repository test-suite, the demonstration
(must fail with the change, pass without), the quick check of PID (and of the properties
listed with --also), undoes the change, and stores everything under /verif/seeded/PID-N/."""
import json, os, re, shutil, subprocess, sys, time
V = os.path.dirname(os.path.dirname(os.path.abspath(__file__)))
pid, mutdir, n = sys.argv[1], sys.argv[2], sys.argv[3]
also = []
if "--also" in sys.argv:
    also = sys.argv[sys.argv.index("--also") + 1].split(",")
patch = os.path.join(mutdir, "patch%s.diff" % n)
demo = os.path.join(mutdir, "demo%s.py" % n)
def sh(cmd, cwd=None, env=None, timeout=3600):
    p = subprocess.run(cmd, shell=True, cwd=cwd, env=env, stdout=subprocess.PIPE, stderr=subprocess.STDOUT, timeout=timeout)
    return p.returncode, p.stdout.decode(errors="replace")
REPO = os.environ.get("SEED_REPO", "/repo")     # a scratch worktree may stand in for /repo (parallel runs)
env = dict(os.environ, PYTHONPATH=REPO, PYSPIKE_REPO=REPO, PYTHONWARNINGS="ignore", PYTHONDONTWRITEBYTECODE="1")
assert sh("git -C %s status --short --untracked-files=no" % REPO)[1].strip() == "", "repo not clean"
rc0, out0 = sh("/venv/bin/python %s" % demo, cwd=REPO, env=env)
res = {"property": pid, "patch": os.path.basename(patch), "demo_without_change_exit": rc0}
rc, out = sh("git -C %s apply %s" % (REPO, patch))
assert rc == 0, out
try:
    rc, out = sh("/venv/bin/python -m pytest -q -p no:cacheprovider --timeout=900 test 2>&1 | tail -3", cwd=REPO, env=env)
    res["testsuite_with_change"] = out.strip().split("\n")[-1]
    rc1, out1 = sh("/venv/bin/python %s" % demo, cwd=REPO, env=env)
    res["demo_with_change_exit"] = rc1
    res["demo_with_change_tail"] = out1[-600:]
    res["checks"] = {}
    for p in [pid] + also:
        t0 = time.time()
        rcc, outc = sh("./check %s --tier quick" % p, cwd=V, env=env)
        lines = [l for l in outc.split("\n") if l.startswith("VIOLATION") or l.startswith("KNOWN-FINDING")]
        res["checks"][p] = {"exit": rcc, "lines": lines[:6], "wall_s": round(time.time() - t0, 1)}
        # keep the first replay of the target property
        m = re.search(r"replay=(\S+)", "\n".join(lines))
        if m and p == pid and os.path.exists(m.group(1)):
            res["replay_sample"] = json.load(open(m.group(1)))
finally:
    sh("git -C %s checkout -- ." % REPO)
    assert sh("git -C %s status --short --untracked-files=no" % REPO)[1].strip() == "", "repo not clean after revert"
tag = str(int(n) + 20) if "mut11" in mutdir else str(int(n) + 18) if "mut10" in mutdir else str(int(n) + 16) if "mut9" in mutdir else str(int(n) + 14) if "mut8" in mutdir else str(int(n) + 12) if "mut7" in mutdir else str(int(n) + 10) if "mut6" in mutdir else str(int(n) + 8) if "mut5" in mutdir else str(int(n) + 6) if "mut4" in mutdir else str(int(n) + 4) if "mut3" in mutdir else (str(int(n) + 2) if "mut2" in mutdir else str(n))
dst = os.path.join(V, "seeded", "%s-%s" % (pid, tag))
os.makedirs(dst, exist_ok=True)
shutil.copy(patch, os.path.join(dst, "patch.diff"))
for f in os.listdir(mutdir):
    if f.endswith(".py") and (f == os.path.basename(demo) or not re.match(r"demo\d+\.py", f)):
        shutil.copy(os.path.join(mutdir, f), os.path.join(dst, f))
notes = os.path.join(mutdir, "notes.md")
if os.path.exists(notes):
    shutil.copy(notes, os.path.join(dst, "notes.md"))
res["confirmed"] = (rc0 == 0 and res.get("demo_with_change_exit", 0) != 0 and "49 passed" in res.get("testsuite_with_change", ""))
res["caught_by"] = [p for p, c in res["checks"].items() if c["exit"] != 0]
res["ran"] = ["git -C %s apply patch.diff (a scratch worktree of /repo at HEAD)" % REPO if REPO != "/repo" else "git -C /repo apply patch.diff", "pytest (repository suite)", "demo with and without the change",
              "./check <id> --tier quick for " + ", ".join([pid] + also), "git -C %s checkout -- ." % REPO]
json.dump(res, open(os.path.join(dst, "meta.json"), "w"), indent=1)
print(json.dumps({k: res[k] for k in ("confirmed", "caught_by", "testsuite_with_change", "demo_with_change_exit", "demo_without_change_exit")}))
for p, c in res["checks"].items():
    print(p, c["exit"], c["lines"][:2])
